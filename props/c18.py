"""C18 - vector expansion is a faithful renaming to scalars (Engine B).

Real code: generate() + Model.simplify({'expand_vectors': True}) versus generate() alone.
* names: every array variable must expand to scalars named with 1-based Modelica indices placed at
  the component level that owns the dimension (a[1].x[2], der(v[3]), _pymoca_delay_0[2,1]) in row-major
  order, in the position of the original variable; outputs / delay states renamed alike;
* attributes: z3 proves the metadata Function of the expanded model equal, row by row under the
  renaming, to that of the unexpanded model for all parameter values;
* residuals: z3 proves expanded dae/initial residual and delay arguments (expression AND duration)
  equal to the unexpanded ones under x[i,j] -> element (i,j) for all values.

The model family is MODELS (hand-written) + TENSOR_MODELS + the generators gen_attr_* (which attribute of
which kind of variable carries which kind of array-valued expression), gen_outputs (order and kinds of the
output list) and gen_delay* (what is delayed x what the duration is made of); the same generators at boundary sizes
(10+ elements / components / delays: two-digit indices, where string order and element order part); gen_alias
(whole-array alias pairs, compiled with detect_aliases on both sides: a later pass reading the expanded scalars, in
particular the "start was never set" marker) and the VARIANTS of check() (second expansion pass); see family().
"""
import itertools
import os
import pickle
import re
import sys
import traceback

# The family is mapped over 16 worker processes; with the default thread pools of OpenBLAS/OpenMP every worker
# spins up one thread per core and the run gets slower the more workers there are (measured: 128 s vs 19 s wall).
for _v in ("OMP_NUM_THREADS", "OPENBLAS_NUM_THREADS", "MKL_NUM_THREADS"):
    os.environ.setdefault(_v, "1")

import casadi as ca
import numpy as np

import pymoca.backends.casadi.model as _pmodel
from pymoca.backends.casadi import generator

from vk.paths import REPO
from vk.report import Collector, EncodingGap, Report, run_parallel, std_args
from vk.smt import equiv, modelio, ops, pipeline
from vk.smt.ast2z3 import elem_name
from vk.smt.sx2z3 import sx2z3

PROP = "C18"

_PARSED = {}


def _generate(text, options=None):
    """generate() on a private copy of the parsed tree.  Every model text is compiled 3-5 times (unexpanded, expanded with
    and without expand_mx, ...) and the ANTLR parse costs ~10x generate + simplify together, so the text is parsed once
    per worker and every compile unpickles its own tree (what pymoca's parse cache hands out as well): no two compiles
    ever share a tree."""
    if text not in _PARSED:
        _PARSED.clear()
        _PARSED[text] = pickle.dumps(pipeline.parse_text(text))
    return generator.generate(pickle.loads(_PARSED[text]), "M", dict(options or {}))

MODELS = {
 "vec1d": """model M
  parameter Real p = 2;
  parameter Real q[3] = {1, 2, 3};
  Real v[3](start = {1, 2, 3}, min = p, max = {4, 5, 6});
  output Real w[3](each nominal = 2);
  Real s;
  input Real u[2];
equation
  der(v) = -v .* q + w;
  w = 2 * v;
  s = v[1] + v[3] * u[2] - u[1];
end M;
""",
 "mat2d": """model M
  parameter Real p = 2;
  Real A[2,3](start = {{1, 2, 3}, {4, 5, 6}}, min = -p);
  output Real B[2,3];
  Real r[2];
  Real s[3](start = {7, 8, 9});
equation
  B = A + A;
  r = A * s;
  for i in 1:3 loop
    s[i] = A[1,i] - A[2,i] * i;
  end for;
  for i in 1:2 loop
    der(A[i,1]) = r[i];
  end for;
  A[1,2] = 1; A[1,3] = 2; A[2,2] = 3; A[2,3] = 4;
end M;
""",
 "comp-arrays": """model Q
  Real w[3](each start = 1.5);
  Real z;
  parameter Real g = 4;
equation
  z = w[1] + w[2] * g;
  der(w) = -w;
end Q;
model M
  Q qq[2];
  Real a;
equation
  a = qq[1].z + qq[2].w[3];
end M;
""",
 "comp-scalar-array": """model Q
  Real y;
  Real z;
equation
  y = 2 * z;
end Q;
model M
  Q qq[3];
  output Real a;
equation
  a = qq[1].y + qq[2].y + qq[3].y;
  for i in 1:3 loop
    qq[i].z = i;
  end for;
end M;
""",
 "delay-vec": """model M
  Real x[3];
  Real y[3];
  Real a[3];
  input Real z[3];
  input Real dt(fixed = true);
  parameter Real eps = 0.1;
equation
  for i in 2:3 loop
    x[i] = 5 * z[i] * eps;
    y[i] = delay(3 * a[i] * eps, dt);
  end for;
  a = x;
  x[1] = 1; y[1] = 2;
end M;
""",
 "delay-scalar": """model M
  Real x, y;
  Real v[2];
  parameter Real h = 3;
equation
  y = delay(x, 6 * h);
  x = time;
  v[1] = x; v[2] = y;
end M;
""",
 "int-attrs": """model M
  parameter Integer n[2,2] = {{1, 2}, {3, 4}};
  parameter Real z[2] = {0.5, 1.5};
  Integer k[2](start = {3, 4}, min = {0, 1});
  Real t;
equation
  k = {1, 2};
  t = z[1] + n[2,1];
end M;
""",
 "size1": """model M
  Real v[1](start = {3});
  output Real w[1];
  Real A[1,2];
equation
  der(v) = -v;
  w = v;
  A[1,1] = v[1]; A[1,2] = w[1];
end M;
""",
}

# Hand-written members for classes that do not need a generator: initial equations over arrays, der() of a
# whole 2-D array, scalar attributes that name ELEMENTS of array parameters (metadata must be re-expressed
# in the expanded parameters), Integer/Boolean arrays with array attributes, structured array operators
# in equations (matrix*vector, transpose, slices, sum), arrays inside scalar / re-parameterised components.
MODELS.update({
 "init-arrays": """model M
  parameter Real q[2,3] = {{1, 2, 3}, {4, 5, 6}};
  parameter Real r[3] = {7, 8, 9};
  Real A[2,3];
  Real v[3];
  Real s;
initial equation
  A = 2 * q;
  v[1] = q[1,2]; v[2] = q[2,1] + r[3]; v[3] = r[1];
  s = q[2,3] - v[2];
equation
  der(A) = -A .* q;
  der(v) = -v + r;
  der(s) = A[1,3] - A[2,1];
end M;
""",
 "elem-attrs": """model M
  parameter Real q[3] = {1, 2, 3};
  parameter Real T[2,3] = {{1, 2, 3}, {4, 5, 6}};
  Real s(start = q[2], min = T[1,3], max = T[2,1] + q[3], nominal = 2 * T[2,2]);
  Real v[2](each start = T[2,2], each max = q[1] + T[1,2]);
  Real B[2,2](each min = -T[2,3], start = {{1, 2}, {3, 4}});
  parameter Real k = T[1,2] * q[3];
  parameter Real kk[3](each max = T[2,1]) = 2 * q;
equation
  der(s) = -s * k; der(v) = -v; der(B) = -B;
end M;
""",
 "int-bool-arrays": """model M
  parameter Real p = 2;
  parameter Integer n[2,3] = {{1, 2, 3}, {4, 5, 6}};
  Integer k[2,3](start = {{3, 4, 5}, {6, 7, 8}}, min = n, max = {{9, 9, 9}, {8, 8, 8}});
  Integer j[3](start = {3, 4, 5}, min = {0, 1, 2});
  Boolean b[2](start = {true, false});
  Real f[2,3](fixed = {{true, true, false}, {true, false, false}}, each start = p);
  Real g[3](fixed = {true, false, true}, start = {1, 2, 3});
equation
  k = n; j[1] = n[1,2]; j[2] = n[2,1]; j[3] = 0;
  b[1] = p > 1; b[2] = f[1,2] > g[3];
  der(f) = -f; der(g) = -g;
end M;
""",
 "array-ops": """model M
  parameter Real lo[2,3] = {{1, 2, 3}, {4, 5, 6}};
  parameter Real q[3] = {1, 2, 3};
  Real r[2];
  Real s3[3];
  Real B[3,2];
  Real v[3];
  Real t;
  output Real C[2,3];
equation
  r = lo * s3;
  der(s3) = -s3 .* q;
  B = transpose(lo) + transpose(C);
  v[1:2] = q[2:3] + s3[1:2]; v[3] = r[2];
  t = sum(q) + sum(s3);
  der(C) = lo - C;
end M;
""",
 # array-literal attribute of an array inside an ARRAY of components: generate() does not replicate the literal along the
 # component dimension (qq.w is 2x3, its start stays [1, 2, 3]) (known finding)
 "comp-array-literal-attr": """model Q
  Real w[3](start = {1, 2, 3});
equation
  der(w) = -w;
end Q;
model M
  Q qq[2];
end M;
""",
 # `each` attribute written as a constant arithmetic expression: generate() folds it to a 1x1 ca.DM (known finding)
 "const-expr-attr": """model M
  Real v[3](each min = 3 * 2, start = {1, 2, 3});
equation
  der(v) = -v;
end M;
""",
 "comp-scalar-holding-arrays": """model Q
  parameter Real g[3] = {1, 2, 3};
  parameter Real G[2,2] = {{1, 2}, {3, 4}};
  Real w[3](start = g, max = 2 * g);
  Real W[2,2](start = G, min = -G);
equation
  der(w) = -w .* g;
  der(W) = -W .* G;
end Q;
model M
  Q qq;
  Q rr(g = {4, 5, 6});
  output Real o[3];
equation
  o = qq.w + rr.w;
end M;
""",
})


# ------------------------------------------------------------------------------------------------
# Generated families.  Every generator yields (model id, Modelica text, in_quick_tier).
# ------------------------------------------------------------------------------------------------
def _lit(dims, base=1, fmt=None):
    """Nested Modelica array literal with pairwise distinct entries base, base+1, ... in row-major order
    (never symmetric, so a transposed / column-major element selection is visible)."""
    cnt = itertools.count()
    fmt = fmt or (lambda k: str(base + k))

    def rec(ds):
        if not ds:
            return fmt(next(cnt))
        return "{" + ", ".join(rec(ds[1:]) for _ in range(ds[0])) + "}"
    return rec(list(dims))


_BOOLS = (1, 1, 0, 1, 0, 0, 1, 0, 1)


def _blit(dims):
    return _lit(dims, fmt=lambda k: "true" if _BOOLS[k % len(_BOOLS)] else "false")


def _dd(dims):
    return "[" + ",".join(str(d) for d in dims) + "]"


def _dm_expr(dims, b):
    """array-valued constant expression that generate() turns into a ca.DM (dense or sparse) instead of a list:
    2 * {..} for vectors; for matrices (2 * {{..}} is rejected by generate) diagonal(..) if square, else fill(..)."""
    if len(dims) == 1:
        return "2 * " + _lit(dims, b)
    if dims[0] == dims[1]:
        return "diagonal(" + _lit(dims[:1], b) + ")"
    return f"fill({b}.5, {dims[0]}, {dims[1]})"


# attribute expression kinds: (tag, text given names of two array parameters and the literal base, needs 'each')
ATTR_KINDS = [
    ("lit", lambda lo, hi, dims, b: _lit(dims, b)),
    ("lit-expr", lambda lo, hi, dims, b: _dm_expr(dims, b + 3)),
    ("par", lambda lo, hi, dims, b: lo),
    ("neg", lambda lo, hi, dims, b: "-" + hi),
    ("aff", lambda lo, hi, dims, b: "2 * " + lo),
    ("shift", lambda lo, hi, dims, b: lo + " - 0.5"),
    ("sum", lambda lo, hi, dims, b: f"{lo} + p * {hi}"),
    ("prod", lambda lo, hi, dims, b: f"{lo} .* {hi}"),
    ("quot", lambda lo, hi, dims, b: f"{hi} ./ {lo}"),
    ("each-par", lambda lo, hi, dims, b: "each p"),
    ("each-lit", lambda lo, hi, dims, b: "each 1.5"),
    ("scalar", lambda lo, hi, dims, b: "3 * p"),
]
NK = len(ATTR_KINDS)


def _attr_mods(j, attrs, rot, lo, hi, dims, no_lit=False):
    """attribute modifications for variable number j: attribute k gets expression kind (5j + k + rot) mod NK."""
    out = []
    for k, a in enumerate(attrs):
        tag, fn = ATTR_KINDS[(5 * j + k + rot) % NK]
        if a == "fixed":
            out.append("fixed = " + _blit(dims) if (j + k + rot) % 3 and not no_lit else "each fixed = true")
            continue
        if no_lit and tag in ("lit", "lit-expr"):
            tag, fn = ATTR_KINDS[2]
        txt = fn(lo, hi, dims, 10 * j + k + 1)
        if txt.startswith("each "):
            out.append(f"each {a} = {txt[5:]}")
        else:
            out.append(f"{a} = {txt}")
    return ", ".join(out)


def _value_kind(j, rot, lo, hi, dims):
    tag, fn = ATTR_KINDS[(5 * j + rot) % NK]
    if tag in ("each-par", "each-lit", "scalar"):
        tag, fn = ATTR_KINDS[4]
    return fn(lo, hi, dims, 40)


ATTR_SHAPES = [(3,), (2, 3), (3, 2), (2, 2), (1, 3), (3, 1), (1,), (1, 1)]
BIG_SHAPES = [(12,), (2, 10), (11, 2), (10, 10)]


def gen_attr_plain(dims, rot):
    """One model per (shape, rotation): a state, an algebraic, an input, a parameter and an output state of that
    shape, each attribute carrying a different kind of expression of the array parameters lo, hi and scalar p."""
    D = _dd(dims)
    m = lambda j, attrs: _attr_mods(j, attrs, rot, "lo", "hi", dims)
    return f"""model M
  parameter Real lo{D} = {_lit(dims, 1)};
  parameter Real hi{D} = {_lit(dims, 21)};
  parameter Real p = 2;
  Real x0{D}({m(0, ['start', 'min', 'max', 'nominal'])});
  Real x1{D}({m(1, ['start', 'min', 'max', 'nominal'])});
  input Real x2{D}({m(2, ['min', 'max', 'nominal'])});
  parameter Real x3{D}({m(3, ['min', 'max', 'nominal'])}) = {_value_kind(3, rot, 'lo', 'hi', dims)};
  output Real x4{D}({m(4, ['start', 'fixed', 'max'])});
  constant Real x5{D}({m(5, ['min'])}) = {_lit(dims, 61)};
equation
  der(x0) = -x0 .* lo + x2;
  x1 = x0 + hi .* x5;
  der(x4) = x1 - x3;
end M;
"""


def gen_attr_compmod(rot, n_outer, inner=3):
    """component array qq[n] (or a scalar component for n_outer = 0) holding arrays w[3], u[3], d[3] and a scalar y;
    all attributes come from modifications in M and are n x 3 / n expressions of M's parameters."""
    cd = (n_outer,) if n_outer else ()
    dims, D1 = cd + (inner,), _dd(cd) if cd else ""
    m = lambda j, attrs: _attr_mods(j, attrs, rot, "lo", "hi", dims)
    ymod = f", y({_attr_mods(3, ['start', 'max'], rot, 'l1', 'h1', cd)})" if cd else ", y(start = 3 * p, max = p)"
    l1 = f"  parameter Real l1{D1} = {_lit(cd, 51)};\n  parameter Real h1{D1} = {_lit(cd, 71)};\n" if cd else ""
    return f"""model Q
  Real w[{inner}];
  Real y;
  Real u[{inner}];
  parameter Real d[{inner}];
equation
  der(w) = -w .* d + u;
  u = 2 * w;
  y = w[1] + w[3];
end Q;
model M
  parameter Real lo{_dd(dims)} = {_lit(dims, 1)};
  parameter Real hi{_dd(dims)} = {_lit(dims, 21)};
  parameter Real p = 2;
{l1}  Q qq{D1}(w({m(0, ['start', 'min', 'max', 'nominal'])}), u({m(1, ['start', 'min', 'max'])}), d({m(2, ['min', 'max'])}){ymod});
  output Real o;
equation
  o = qq{'[' + str(n_outer) + ']' if cd else ''}.y;
end M;
"""


def gen_attr_compinner(rot, n_outer, inner=3):
    """the attributes are written INSIDE the component class in terms of its own array parameters; instantiating
    the class as qq[n] turns them into n x 3 symbolic attributes."""
    D1 = _dd((n_outer,)) if n_outer else ""
    # inside a component ARRAY pymoca turns the scalar parameter p into a vector (p * hi would be a matrix product,
    # which generate() rejects) and cannot replicate array literals, so those two kinds use literals / lo there
    # (3 * p becomes the literal 6.5, not 3 * 2: constant-folded scalar attributes are the known finding `const-expr-attr`)
    m = lambda j, attrs: re.sub(r"\bp\b", "2", _attr_mods(j, attrs, rot, "lo", "hi", (inner,), no_lit=True).replace("3 * p", "6.5")) \
        if n_outer else _attr_mods(j, attrs, rot, "lo", "hi", (inner,))
    return f"""model Q
  parameter Real lo[{inner}];
  parameter Real hi[{inner}];
  parameter Real p;
  Real w[{inner}]({m(0, ['start', 'min', 'max', 'nominal'])});
  Real a[{inner}]({m(1, ['start', 'min', 'max', 'nominal'])});
  parameter Real d[{inner}]({m(2, ['min', 'max'])});
equation
  der(w) = -w .* d + a;
  a = 2 * w + lo;
end Q;
model M
  Q qq{D1};
  output Real o;
equation
  o = qq{'[' + str(n_outer) + ']' if n_outer else ''}.w[2];
end M;
"""


# --- outputs -------------------------------------------------------------------------------------
OUT_KINDS = ["S0", "S1", "S2", "A0", "A1", "A2"]        # S = differentiated state, A = algebraic; 0/1/2 = number of dims
_OUT_DIMS = {"0": [()], "1": [(2,), (3,)], "2": [(2, 2), (1, 2), (2, 3)]}


# two-digit indices: x[10] sorts before x[2] as a string, [1,10] before [1,2]
_OUT_DIMS_BIG = {"0": [()], "1": [(11,), (10,)], "2": [(2, 10), (10, 1), (11, 2)]}


def gen_outputs(seq, pad, big=False):
    """outputs declared in the order `seq`; pad = 1 interleaves non-output arrays (a state and an algebraic one) so
    that positions in the variable lists and in `outputs` differ; pad = 2 additionally makes them `output`-free scalars."""
    decl, eqs = [], []
    for i, kd in enumerate(seq):
        tbl = _OUT_DIMS_BIG if big else _OUT_DIMS
        dims = tbl[kd[1]][i % len(tbl[kd[1]])]
        nm = f"o{i}"
        if pad and i == 1:
            decl.append("  Real n1[2];" if pad == 1 else "  Real n1;")
            eqs.append("  der(n1) = -n1;")
        decl.append(f"  output Real {nm}{_dd(dims) if dims else ''};")
        if kd[0] == "S":
            eqs.append(f"  der({nm}) = -{nm} * {i + 2};")
        else:
            for ind in np.ndindex(*dims) if dims else [()]:
                sub = "[" + ",".join(str(a + 1) for a in ind) + "]" if dims else ""
                eqs.append(f"  {nm}{sub} = {i + 2 + sum((a + 1) * 10 ** b for b, a in enumerate(ind))} * time;")
        if pad and i == 0:
            decl.append("  Real m1[3];" if pad == 1 else "  Real m1;")
            eqs.append("  m1 = {1, 2, 3} * time;" if pad == 1 else "  m1 = time;")
    return "model M\n" + "\n".join(decl) + "\nequation\n" + "\n".join(eqs) + "\nend M;\n"


# --- delays --------------------------------------------------------------------------------------
# delayed expression kinds: (tag, result declaration, equation template with {D} = duration)
DELAY_EXPRS = [
    ("vec", "Real {Y}[3];", "{Y} = delay(x, {D});"),
    ("vexpr", "Real {Y}[3];", "{Y} = delay(2 * x + z, {D});"),
    ("el", "Real {Y};", "{Y} = delay(x[2], {D});"),
    ("elexpr", "Real {Y};", "{Y} = delay(x[1] * tau[2] + x[3], {D});"),
    ("mat", "Real {Y}[2,3];", "{Y} = delay(A, {D});"),
    ("matel", "Real {Y};", "{Y} = delay(A[1,3] - A[2,1], {D});"),
    ("sc", "Real {Y};", "{Y} = delay(s, {D});"),
    ("loop", "Real {Y}[3];", "for i in 2:3 loop\n    {Y}[i] = lag * delay(3 * x[i] * lag, {D});\n  end for;\n  {Y}[1] = 0;"),
    ("loop2d", "Real {Y}[2,3];", "for i in 1:2 loop\n    {Y}[i,2] = delay(A[i,3] + T[i,1], {D});\n  end for;\n  {Y}[1,1] = 0; {Y}[1,3] = 0; {Y}[2,1] = 0; {Y}[2,3] = 0;"),
]
# durations: scalar expressions of a literal, a scalar parameter and ELEMENTS of array parameters / constants / fixed inputs
DELAY_DURS = [
    ("lit", "0.5"), ("lag", "lag"), ("tau1", "tau[1]"), ("tau2", "tau[2]"), ("3tau1", "3 * tau[1]"),
    ("T12", "T[1,2]"), ("T21", "T[2,1]"), ("cc2", "cc[2]"), ("fi2", "fi[2]"), ("tau1+T23", "tau[1] + T[2,3]"),
    ("lag*cc1", "lag * cc[1]"), ("fi1+tau2", "fi[1] + tau[2]"), ("F21", "F[2,1]"),
]
_DELAY_HEAD = """  parameter Real tau[2] = {0.5, 1.5};
  parameter Real T[2,3] = {{1, 2, 3}, {4, 5, 6}};
  parameter Real lag = 2;
  constant Real cc[2] = {0.25, 0.75};
  input Real fi[2](each fixed = true);
  input Real F[2,2](each fixed = true);
  input Real z[3];
  Real x[3];
  Real A[2,3];
  Real s;
"""
_DELAY_EQS = "  der(x) = -x;\n  der(A) = -A;\n  der(s) = -s;\n"


def gen_delay(picks):
    """one model with one delay per (expression kind, duration kind) pair in `picks`."""
    decl, eqs = [], []
    for n, (e, d) in enumerate(picks):
        _, dc, eq = DELAY_EXPRS[e]
        decl.append("  " + dc.replace("{Y}", f"y{n}"))
        eqs.append("  " + eq.replace("{Y}", f"y{n}").replace("{D}", DELAY_DURS[d][1]))
    return "model M\n" + _DELAY_HEAD + "\n".join(decl) + "\nequation\n" + _DELAY_EQS + "\n".join(eqs) + "\nend M;\n"


BIG_DELAY_KINDS = ["vec", "vexpr", "mat", "matT", "loop", "mix", "many"]


def gen_delay_big(n, kind, d):
    """delays whose expanded names get two-digit indices or two-digit delay numbers (n >= 10): a delayed vector / vector
    expression of n elements, 2 x n and n x 2 matrices, n delays from a for-loop, a big vector delay between scalar ones,
    and n separate delay() calls (every third one of a 2-vector)."""
    D = DELAY_DURS[d][1]
    head = _DELAY_HEAD.replace("Real z[3]", f"Real z[{n}]").replace("Real x[3]", f"Real x[{n}]").replace("Real A[2,3]", f"Real A[2,{n}]")
    head += f"  Real B[{n},2];\n  Real p2[2];\n"
    eqs = _DELAY_EQS + "  der(B) = -B;\n  der(p2) = -p2;\n"
    if kind == "vec":
        decl, body = [f"Real y[{n}];"], [f"y = delay(x, {D});"]
    elif kind == "vexpr":
        decl, body = [f"Real y[{n}];"], [f"y = delay(2 * x + z, {D});"]
    elif kind == "mat":
        decl, body = [f"Real Y[2,{n}];"], [f"Y = delay(A, {D});"]
    elif kind == "matT":
        decl, body = [f"Real Y[{n},2];"], [f"Y = delay(B + B, {D});"]
    elif kind == "loop":
        decl, body = [f"Real y[{n}];"], [f"for i in 1:{n} loop\n    y[i] = delay(x[i] * i + z[i], {D});\n  end for;"]
    elif kind == "mix":
        decl = ["Real w0;", f"Real y[{n}];", "Real w1;", "Real Y[2,2];", f"Real y2[{n}];"]
        body = ["w0 = delay(s, lag);", f"y = delay(x, {D});", f"w1 = delay(x[{n}] - s, 0.5);", "Y = delay(F, tau[1]);", f"y2 = delay(z .* x, {D});"]
    else:
        decl, body = [], []
        for i in range(1, n + 1):
            if i % 3 == 0:
                decl.append(f"Real v{i}[2];")
                body.append(f"v{i} = delay({i} * p2, {D});")
            else:
                decl.append(f"Real w{i};")
                body.append(f"w{i} = delay(x[{i}] * {i}, {D if i % 2 else 'lag'});")
    return "model M\n" + head + "".join(f"  {x}\n" for x in decl) + "equation\n" + eqs + "".join(f"  {x}\n" for x in body) + "end M;\n"


def gen_delay_comp(n_dur, outer):
    """the delay and the array parameter its duration indexes live inside a component (flat names qq.tau[2])."""
    dur = ["tau[2]", "3 * tau[1]", "T[2,1]", "tau[1] + T[1,2]"][n_dur]
    return f"""model Q
  parameter Real tau[2] = {{0.5, 1.5}};
  parameter Real T[2,2] = {{{{1, 2}}, {{3, 4}}}};
  Real x[3];
  Real y[3];
  Real z;
equation
  der(x) = -x;
  y = delay(2 * x, {dur});
  z = delay(x[3], tau[1]);
end Q;
model M
  Q qq;
  parameter Real tau[2] = {{7, 8}};
  Real w;
equation
  w = delay(qq.x[1], {'tau[2]' if outer else '2 * tau[1]'});
end M;
"""


# --- later passes over the expanded scalars: alias detection ---------------------------------------
# start kinds of the two partners of a whole-array alias equation; "none" (never set) is what alias merging looks for
ALIAS_STARTS = ["none", "lit", "dm", "each", "par", "expr"]
ALIAS_PARTNERS = ["alg", "state", "input", "comp"]
ALIAS_SHAPES = [(2,), (2, 3), (12,), (3,), (3, 2), (1,), (2, 2)]
_ALIAS_CONST = ("lit", "dm", "each")


def _alias_pairs(ka):
    """start kinds of b that can be paired with start kind `ka` of a.  detect_aliases on UNEXPANDED arrays compares two
    constant starts with `list/DM != MX` and takes its truth value, which raises for anything but two scalars (alias
    merging itself, C16's subject): such a pair leaves no unexpanded model to compare the expansion with."""
    return [kb for kb in ALIAS_STARTS if not (ka in _ALIAS_CONST and kb in _ALIAS_CONST and (ka, kb) != ("each", "each"))]


def _alias_start(kind, dims, b, neg):
    # for the same reason list literals are used only where the unexpanded alias merging can digest them (1-D, positive
    # alias: it negates with `-1 * list` and converts with ca.MX(nested list)); elsewhere a DM-valued expression stands in
    if kind == "lit" and (neg or len(dims) > 1):
        kind = "dm"
    return {"none": "", "lit": f"start = {_lit(dims, b)}", "dm": f"start = {_dm_expr(dims, b)}", "each": "each start = 1.5",
            "par": "start = lo", "expr": "start = 2 * hi"}[kind]


def gen_alias(dims, neg, ka, partner, swap):
    """One alias pair a_k = [-]b_k (swap: b_k = [-]a_k) per admissible start kind of b_k; every a_k has start kind `ka`.
    Both partners carry bounds / nominal / fixed of different kinds so that the merged attributes are visible element by
    element.  partner: b_k is algebraic, a differentiated state, an input, or a_k lives inside a component (flat name c_k.a)."""
    D = _dd(dims)
    e1 = "[" + ",".join("1" for _ in dims) + "]"
    sg = "-" if neg else ""
    lists_ok = len(dims) == 1 and not neg
    decl, eqs = [], []
    for k, kb in enumerate(_alias_pairs(ka)):
        amods = [_alias_start(ka, dims, 10 * k + 1, neg)]
        bmods = [_alias_start(kb, dims, 10 * k + 5, neg)]
        if k % 2 == 0:
            amods.append("min = " + _lit(dims, -30 - k) if lists_ok else "min = -hi")
        amods.append("each nominal = 2")
        bmods.append("max = " + _lit(dims, 50 + k) if lists_ok else "max = 2 * hi")
        if k % 3 == 0:
            bmods.append("nominal = " + _lit(dims, 3) if lists_ok else "nominal = lo")
        if k == 1 and partner != "input":
            bmods.append("each fixed = true")
        am = ", ".join(m for m in amods if m)
        bm = ", ".join(m for m in bmods if m)
        if partner == "comp":
            decl.append(f"  Q c{k}(a({am}));")
            a = f"c{k}.a"
        else:
            decl.append(f"  Real a{k}{D}({am});")
            a = f"a{k}"
        decl.append(f"  {'input ' if partner == 'input' else ''}Real b{k}{D}" + (f"({bm})" if bm else "") + ";")
        eqs.append(f"  b{k} = {sg}{a};" if swap else f"  {a} = {sg}b{k};")
        if partner == "state":
            eqs.append(f"  der(b{k}) = -{k + 2} * b{k};")
        elif partner != "input":
            eqs.append(f"  b{k} = {k + 2} * x + lo;")
    q = f"model Q\n  Real a{D};\nend Q;\n" if partner == "comp" else ""
    a0 = "c0.a" if partner == "comp" else "a0"
    return q + f"""model M
  parameter Real lo{D} = {_lit(dims, 1)};
  parameter Real hi{D} = {_lit(dims, 21)};
  Real x{D}(start = {_lit(dims, 7)});
  Real sa(start = 3);
  Real sb;
  output Real o{D};
""" + "\n".join(decl) + f"""
equation
  der(x) = -x;
  sa = {sg}sb;
  sb = 2 * x{e1};
  o = {a0} + x;
""" + "\n".join(eqs) + "\nend M;\n"


def family(tier):
    """[(model id, text)] for the tier."""
    thorough = tier == "thorough"
    items = list(MODELS.items()) + list(TENSOR_MODELS.items())
    # (A) symbolic array attributes
    for dims in ATTR_SHAPES:
        for rot in range(NK):
            if thorough or rot % 2 == 0 or dims in ((2, 3), (3, 2)):
                items.append((f"attr:{'x'.join(map(str, dims))}:r{rot}", gen_attr_plain(dims, rot)))
    for n_outer in (2, 0, 1, 3):
        for rot in range(NK):
            if thorough or (n_outer == 2) or rot % 4 == 0:
                items.append((f"attr-compmod:{n_outer}x3:r{rot}", gen_attr_compmod(rot, n_outer)))
                items.append((f"attr-compinner:{n_outer}x3:r{rot}", gen_attr_compinner(rot, n_outer)))
    # (B) output lists
    for n in (1, 2, 3, 4):
        for seq in itertools.product(OUT_KINDS, repeat=n):
            if all(k[1] == "0" for k in seq):
                continue  # no array: nothing is expanded
            for pad in (0, 1, 2):
                if n == 1 and pad:
                    continue
                quick = (n <= 2) or (n == 3 and pad == 0) or (n == 3 and pad == 1 and seq[0][0] != seq[1][0])
                if thorough or quick:
                    items.append((f"out:{'.'.join(seq)}:pad{pad}", gen_outputs(seq, pad)))
    # (C) delays
    for e in range(len(DELAY_EXPRS)):
        for d in range(len(DELAY_DURS)):
            items.append((f"delay:{DELAY_EXPRS[e][0]}:{DELAY_DURS[d][0]}", gen_delay([(e, d)])))
    ne, nd = len(DELAY_EXPRS), len(DELAY_DURS)
    for k in range(nd if thorough else 6):      # several delays per model: order of delay states, shared durations
        picks = [((k + 2 * i) % ne, (3 * k + 5 * i) % nd) for i in range(3)]
        items.append((f"delay-multi:{k}", gen_delay(picks)))
    for n_dur in range(4):
        for outer in (0, 1):
            items.append((f"delay-comp:{n_dur}:{outer}", gen_delay_comp(n_dur, outer)))
    # (F) boundary sizes: 10 and more elements along a dimension, 10 and more components, 11 and more delays
    for dims in BIG_SHAPES:
        for rot in range(NK):
            if thorough or rot % 6 == (len(dims) - 1):
                items.append((f"big-attr:{'x'.join(map(str, dims))}:r{rot}", gen_attr_plain(dims, rot)))
    for n_outer, inner in ((10, 3), (2, 11), (0, 12), (11, 10)):
        for rot in range(0, NK, 3):
            if thorough or (rot == 3 and n_outer != 11):
                items.append((f"big-attr-compmod:{n_outer}x{inner}:r{rot}", gen_attr_compmod(rot, n_outer, inner)))
                items.append((f"big-attr-compinner:{n_outer}x{inner}:r{rot}", gen_attr_compinner(rot, n_outer, inner)))
    for n in (1, 2, 3):
        for seq in itertools.product(OUT_KINDS, repeat=n):
            if all(k[1] == "0" for k in seq):
                continue
            for pad in (0, 1):
                if (n == 1 and pad) or (n == 3 and pad):
                    continue
                if thorough or (n <= 2 and pad == 0):
                    items.append((f"big-out:{'.'.join(seq)}:pad{pad}", gen_outputs(seq, pad, big=True)))
    for n in (9, 10, 11, 12, 23) if thorough else (10, 12):
        for ki, kind in enumerate(BIG_DELAY_KINDS):
            for d in range(nd) if thorough and n in (10, 12) else ((1, 3) if n == 10 else (5, 8)):
                items.append((f"big-delay:{n}:{kind}:{DELAY_DURS[d][0]}", gen_delay_big(n, kind, d)))
    # (G) a later pass reads the expanded scalars: whole-array aliases, the unexpanded and the expanded model both compiled
    # with detect_aliases
    for dims in ALIAS_SHAPES:
        for neg in (0, 1):
            for ia, ka in enumerate(ALIAS_STARTS):
                for ip, partner in enumerate(ALIAS_PARTNERS):
                    for swap in (0, 1):
                        quick = ip == (ia + len(dims) + dims[0]) % 4 and swap == (ia + neg) % 2
                        if thorough or quick:
                            mid = f"alias:{'x'.join(map(str, dims))}:{'neg' if neg else 'pos'}:{ka}:{partner}:{'swap' if swap else 'fwd'}"
                            items.append((mid, gen_alias(dims, neg, ka, partner, swap), "alias"))
                            if thorough and swap == 0:
                                items.append((mid, gen_alias(dims, neg, ka, partner, swap)))
    # (H) the expansion runs over an already expanded model: iterative_simplification, simplify() called twice
    # (not the two models whose FIRST expansion already raises: known findings)
    for mid, text in [it for it in MODELS.items() if it[0] not in ("comp-array-literal-attr", "const-expr-attr")] + [it for it in items if it[0] in ("attr:2x3:r0", "attr-compmod:2x3:r0", "attr-compinner:2x3:r4", "out:S1.A2.S2:pad1", "big-attr:12:r0", "big-out:S2.A1:pad0")]:
        for variant in ("iter", "twice"):
            items.append((mid, text, variant))
    return items


def expected_names(sym):
    """(expanded name, my element name) in expansion (row-major) order for an unexpanded symbol,
    or None if the symbol is a scalar that stays as is."""
    ms = sym._modelica_shape
    name = sym.name()
    if not (len(ms) > 0 and isinstance(ms[0], tuple)):
        ms = (tuple(ms),) if len(ms) else ((None,),)
    if set(ms) == {(None,)} or all(all(d is None for d in lv) for lv in ms):
        return None
    pre, core, post = "", name, ""
    while core.startswith("der(") and core.endswith(")"):
        pre, core, post = pre + "der(", core[4:-1], post + ")"
    parts = core.split(".")
    if len(parts) != len(ms):
        raise EncodingGap(f"{name}: {len(parts)} name parts but {len(ms)} shape levels")
    dims = [d for lv in ms for d in lv if d is not None]
    out = []
    n, m = sym.size1(), sym.size2()
    for ind in np.ndindex(*dims):
        k = 0
        segs = []
        for part, lv in zip(parts, ms):
            cnt = len([d for d in lv if d is not None])
            segs.append(part + ("[" + ",".join(str(i + 1) for i in ind[k:k + cnt]) + "]" if cnt else ""))
            k += cnt
        exp = pre + ".".join(segs) + post
        mine = elem_name(name, tuple(ind))
        out.append((exp, mine))
    return out


# Arrays with three or more dimensions in total (T[2,2,2], qq[2].A[2,2], qq[2].r[3].x[2]) exist only under expand_vectors
# (generate() refuses them otherwise) and pymoca cannot subscript them, so they can only be DECLARED.  There is no
# unexpanded Function to compare with and no value-level claim to make: names, order, attribute elements (nested
# literals / scalars), python types and outputs are compared concretely against the not-yet-simplified model.
TENSOR_MODELS = {
 "tensor:top-level": """model M
  parameter Real P[2,1,2] = {{{1, 2}}, {{5, 6}}};
  output Real U[1,2,2](start = {{{1, 2}, {3, 4}}}, each min = -1);
  Integer K[2,2,2](start = {{{1, 2}, {3, 4}}, {{5, 6}, {7, 8}}}, max = {{{9, 8}, {7, 6}}, {{5, 4}, {3, 2}}});
  Real V[2,3,2](each start = 1.5, each fixed = true);
  Real s;
  output Real o[2];
equation
  der(s) = -s;
  o[1] = s; o[2] = 2 * s;
end M;
""",
 "tensor:comp-array-holding-matrix": """model Q
  Real A[2,3](each start = 2);
  parameter Real g[2];
  Real y;
end Q;
model M
  Q qq[2];
  Q rr[2,2];
  output Real s;
equation
  der(s) = -s;
end M;
""",
 "tensor:nested-comp-arrays": """model R
  Real x[2](each max = 9);
  Real z;
end R;
model Q
  R r[3];
  R r1;
  Real A[2,2];
end Q;
model M
  Q qq[2];
  Q q1;
  Real s;
equation
  der(s) = -s;
end M;
""",
}
_ATTRS = ("value", "min", "max", "start", "fixed", "nominal")
_CATS = ["states", "der_states", "alg_states", "inputs", "parameters", "constants"]


def _same_const(a, b):
    try:
        fa, fb = float(a), float(b)
    except Exception:
        return str(a) == str(b)
    return fa == fb or (fa != fa and fb != fb)


def check_tensor(col, mid, text):
    for mx in (0, 1):
        opts = {"expand_vectors": True, "expand_mx": True} if mx else {"expand_vectors": True}
        case = f"{mid}|mx{mx}"
        try:
            base = _generate(text, opts)      # generated, not simplified: still holds the tensors
        except Exception as e:
            col.append("unsupported_models", f"{mid}: {type(e).__name__}: {str(e)[:80]}")
            return
        try:
            ex = _generate(text, opts)
            ex.simplify(dict(opts))
            ex.dae_residual_function, ex.variable_metadata_function
        except Exception as e:
            col.violation(f"{case}:raises:{type(e).__name__}", f"expand_vectors raises {type(e).__name__}: {str(e)[-100:]} on a model with declared 3-D+ arrays",
                          {"model_text": text, "options": opts})
            continue
        n_tensor = 0
        for cat in _CATS:
            want = []
            for v in getattr(base, cat):
                en = expected_names(v.symbol)
                if en is None:
                    want.append((v.symbol.name(), v, None))
                    continue
                dims = [d for lv in v.symbol._modelica_shape for d in lv if d is not None]
                n_tensor += len(dims) > 2
                want += [(a, v, ind) for (a, _), ind in zip(en, np.ndindex(*dims))]
            got = getattr(ex, cat)
            if [v.symbol.name() for v in got] != [w[0] for w in want]:
                col.violation(f"{case}:{cat}:names", f"expanded {cat} are {[v.symbol.name() for v in got]}, expected {[w[0] for w in want]}",
                              {"model_text": text, "options": opts})
                continue
            for (nm, bv, ind), ev in zip(want, got):
                if ev.symbol.numel() != 1:
                    col.violation(f"{case}:{cat}:{nm}:not-scalar", "expanded variable is not a scalar", {"model_text": text})
                if ev.python_type is not bv.python_type:
                    col.violation(f"{case}:type:{nm}", "python type changed by expansion", {"model_text": text})
                for a in _ATTRS:
                    b, e = getattr(bv, a), getattr(ev, a)
                    if ind is not None and isinstance(b, list):
                        for i in ind:
                            b = b[i]
                    elif isinstance(b, (ca.DM, np.ndarray)) or (isinstance(b, ca.MX) and b.numel() != 1):
                        raise EncodingGap(f"{nm}.{a}: {type(b).__name__} attribute on a tensor")
                    col.bump("tensor_attribute_elements")
                    if not _same_const(b, e):
                        col.violation(f"{case}:attr:{nm}:{a}", f"attribute {a} of {nm} is {e}, the element of the array's attribute is {b}",
                                      {"model_text": text, "options": opts})
        want_out = []
        for o in base.outputs:
            sym = next(v.symbol for v in base.states + base.alg_states if v.symbol.name() == o)
            en = expected_names(sym)
            want_out += [a for a, _ in en] if en else [o]
        if list(ex.outputs) != want_out:
            col.violation(f"{case}:outputs", f"outputs {list(ex.outputs)}, expected {want_out}", {"model_text": text, "options": opts})
        if not n_tensor:
            raise EncodingGap(f"{mid}: no 3-D+ symbol in the generated model")
        col.bump("tensor_programs")


def _replay(fa, names_a, oa, ka, fb, names_b, ob, kb, pt):
    """numeric replay of a z3 `sat` on the two real Functions: (value a, value b) if they differ, else None."""
    for p in equiv.perturbations(pt, 0):
        try:
            va = modelio.eval_function(fa, names_a, p)[oa][ka]
            vb = modelio.eval_function(fb, names_b, p)[ob][kb]
        except Exception:
            continue
        if not equiv.close(va, vb):
            return va, vb
    return None


# Observation points beyond "generate + one simplify({'expand_vectors': True})": the same comparison with a later
# simplification pass consuming the expanded scalars (`extra` options given to BOTH the unexpanded and the expanded
# compile: the expansion must commute with the pass), and with a second expansion pass over the already expanded model.
VARIANTS = {
    "alias": {"extra": {"detect_aliases": True}},           # alias merging reads start ("never set" marker), bounds, nominal, fixed, type
    "iter": {"extra": {"iterative_simplification": True}},   # _simplify_once runs again while the number of algebraic states changes
    "twice": {"extra": {}, "twice": True},                   # simplify(opts) called a second time on the expanded model
}


_DefaultValue = getattr(_pmodel, "_DefaultValue", ())


def _is_unset(v):
    """the Variable's attribute is pymoca's `never set` default marker (only `start` has one)"""
    return isinstance(v, _DefaultValue)


def _compile_base(text, bopts, generated=None):
    """(unexpanded model, its four Functions or None, note); bopts None = generate() only (nothing to simplify)."""
    base = generated or _generate(text, bopts)
    if bopts:
        base.simplify(dict(bopts))
    try:
        return base, (base.dae_residual_function, base.initial_residual_function, base.variable_metadata_function,
                      base.delay_arguments_function), ""
    except Exception as e:
        # generate() succeeded but one of the unexpanded model's Functions cannot be built: there is nothing to compare
        # an expansion with, but an expansion that RAISES on such a model is still reported
        return base, None, f" (a Function of the unexpanded model is unusable as well: {type(e).__name__}: {str(e)[-80:]})"


def check(col, mid, text, variant=None):
    var = VARIANTS[variant] if variant else {"extra": {}}
    extra = var["extra"]
    try:
        decl = _generate(text)     # declarations as generated: shapes of every symbol, also of eliminated ones
        decl_syms = {v.symbol.name(): v.symbol for cat in _CATS for v in getattr(decl, cat)}
        if not extra:
            base, base_fns, base_note = _compile_base(text, None, decl)
    except Exception as e:
        col.append("unsupported_models", f"{mid}: {type(e).__name__}: {str(e)[:80]}")
        return
    for mx in (0, 1):
        opts = dict(extra, expand_vectors=True)
        if mx:
            opts["expand_mx"] = True
        case = f"{mid}|{variant}|mx{mx}" if variant else f"{mid}|mx{mx}"
        if extra:
            try:
                base, base_fns, base_note = _compile_base(text, dict(extra, expand_mx=bool(mx)))
            except Exception as e:
                col.append("unsupported_models", f"{case}: unexpanded model does not simplify with {extra}: {type(e).__name__}: {str(e)[:80]}")
                continue
        try:
            ex = _generate(text, opts)
            ex.simplify(dict(opts))
            if var.get("twice"):
                ex.simplify(dict(opts))
            ex_fns = (ex.dae_residual_function, ex.initial_residual_function, ex.variable_metadata_function,
                      ex.delay_arguments_function)
        except Exception as e:
            col.violation(f"{case}:raises:{type(e).__name__}", f"expand_vectors raises {type(e).__name__}: {str(e)[-100:]} on a model that compiles without it" + base_note,
                          {"model_text": text, "options": opts})
            continue
        if base_fns is None:
            col.append("unsupported_models", f"{case}: unexpanded model has no usable Functions{base_note[:120]}")
            continue
        rename = {}
        ok = True
        delay_map = {}
        for cat in ["states", "der_states", "alg_states", "inputs", "parameters", "constants"]:
            want = []
            for v in getattr(base, cat):
                is_delay = v.symbol.name() in base.delay_states
                en = expected_names(v.symbol)
                if en is None and is_delay:
                    # delay states are always expanded (they carry no reliable shape)
                    n = v.symbol.numel()
                    en = [(f"{v.symbol.name()}[{i + 1}]", elem_name(v.symbol.name(), (i,)) if n > 1 or v.symbol._modelica_shape != () else v.symbol.name()) for i in range(n)]
                    en = [(a, modelio.sym_elem_names(v.symbol)[i]) for i, (a, _) in enumerate(en)]
                if en is None:
                    want.append((v.symbol.name(), v.symbol.name()))
                else:
                    want.extend(en)
                if is_delay:
                    delay_map[v.symbol.name()] = [a for a, _ in (en or [(v.symbol.name(), None)])]
            got = [v.symbol.name() for v in getattr(ex, cat)]
            if got != [a for a, _ in want]:
                col.violation(f"{case}:{cat}:names", f"expanded {cat} are {got}, expected {[a for a, _ in want]}", {"model_text": text, "options": opts})
                ok = False
            for a, b in want:
                rename[a] = b
            for v in getattr(ex, cat):
                if v.symbol.numel() != 1:
                    col.violation(f"{case}:{cat}:{v.symbol.name()}:not-scalar", "expanded variable is not a scalar", {"model_text": text})
                    ok = False
        if not ok:
            continue
        # outputs / delay states
        want_out = []
        for o in base.outputs:
            en = expected_names(decl_syms[o])
            want_out += [a for a, _ in en] if en else [o]
        if list(ex.outputs) != want_out:
            col.violation(f"{case}:outputs", f"outputs {list(ex.outputs)}, expected {want_out}", {"model_text": text, "options": opts})
        want_delay = [n for d in base.delay_states for n in delay_map[d]]
        if sorted(ex.delay_states) != sorted(want_delay):
            col.violation(f"{case}:delay_states", f"delay states {list(ex.delay_states)}, expected {want_delay}", {"model_text": text, "options": opts})
        elif list(ex.delay_states) != want_delay:
            # same names: every delay state must stay in the position of the state it came from, elements in row-major order
            # (delay_states[k] belongs to delay_arguments[k]; the pairing itself is decided by z3 below)
            col.violation(f"{case}:delay_states:order", f"delay states {list(ex.delay_states)}, expected the order {want_delay}", {"model_text": text, "options": opts})
        # aliases (non-empty only with detect_aliases): the alias set of element (i,j) is element (i,j) of every alias of the array
        for cat in _CATS:
            want_al = {}
            for v in getattr(base, cat):
                en = [a for a, _ in (expected_names(v.symbol) or [(v.symbol.name(), None)])]
                sets = [set() for _ in en]
                for al in v.aliases:
                    sg, nm = ("-", al[1:]) if al.startswith("-") else ("", al)
                    aen = [a for a, _ in (expected_names(decl_syms[nm]) or [(nm, None)])]
                    if len(aen) != len(en):
                        raise EncodingGap(f"{v.symbol.name()} has {len(en)} elements, its alias {nm} has {len(aen)}")
                    for st, a in zip(sets, aen):
                        st.add(sg + a)
                want_al.update(zip(en, sets))
            for v in getattr(ex, cat):
                col.bump("alias_sets")
                if set(v.aliases) != want_al.get(v.symbol.name(), set()):
                    col.violation(f"{case}:aliases:{v.symbol.name()}", f"aliases of {v.symbol.name()} are {sorted(v.aliases)}, the unexpanded model gives {sorted(want_al.get(v.symbol.name(), set()))}",
                                  {"model_text": text, "options": opts})
        # functions under the renaming
        names_b = modelio.model_in_names(base)
        names_e = [[rename.get(s.name(), s.name()) for s in g] for g in modelio.model_groups(ex)]
        div = ops.Divisors()
        for fi, fname in enumerate(["dae_residual", "initial_residual"]):
            fb, fe = base_fns[fi], ex_fns[fi]
            if fb.n_out() == 0 and fe.n_out() == 0:
                continue
            _, zb, _ = sx2z3(fb, names_b, div)
            _, ze, _ = sx2z3(fe, names_e, div)
            a, b = zb[0]["dense"], ze[0]["dense"]
            if len(a) != len(b):
                col.violation(f"{case}:{fname}:length", f"{fname} has {len(b)} rows expanded, {len(a)} unexpanded", {"model_text": text, "options": opts})
                continue
            for k, (ta, tb) in enumerate(zip(a, b)):
                col.bump("residual_elements")
                if ta.get_id() == tb.get_id():
                    col.count("unsat")
                    continue
                r, m = equiv.check(col, div.nonzero() + [ta != tb])
                if r == "sat":
                    pt = equiv.point_from_model(m, [ta, tb])
                    va = modelio.eval_function(fb, names_b, pt)[0][k]
                    vb = modelio.eval_function(fe, names_e, pt)[0][k]
                    if not equiv.close(va, vb):
                        col.violation(f"{case}:{fname}[{k}]", f"{fname} element {k} differs from the unexpanded residual under the renaming",
                                      {"model_text": text, "options": opts, "point": pt, "unexpanded": va, "expanded": vb})
                    else:
                        col.note_inconclusive(f"{case}:{fname}[{k}] sat did not replay")
                elif r == "unknown":
                    col.note_inconclusive(f"{case}:{fname}[{k}] unknown")
        # delay arguments: match by delay state name
        fb, fe = base_fns[3], ex_fns[3]
        if fb.n_out():
            _, zb, _ = sx2z3(fb, names_b, div)
            _, ze, _ = sx2z3(fe, names_e, div)
            bmap = {}
            for i, d in enumerate(base.delay_states):
                exprs, dur = zb[2 * i]["dense"], zb[2 * i + 1]["dense"]
                shp = zb[2 * i]["shape"]
                if len(exprs) != len(delay_map[d]) or len(dur) != 1:
                    raise EncodingGap(f"delay {d}: {len(exprs)} expression elements for {len(delay_map[d])} names, {len(dur)} durations")
                # delay_map is in row-major (expansion) order, `dense` in CasADi's column-major order
                for nm, ind in zip(delay_map[d], np.ndindex(*shp)):
                    bmap[nm] = (exprs[ind[0] + ind[1] * shp[0]], dur[0], (2 * i, ind[0] + ind[1] * shp[0]), (2 * i + 1, 0))
            for i, d in enumerate(ex.delay_states):
                if d not in bmap:
                    continue
                if len(ze[2 * i]["dense"]) != 1 or len(ze[2 * i + 1]["dense"]) != 1:
                    col.violation(f"{case}:delay:{d}:not-scalar", "expanded delay argument is not a scalar", {"model_text": text, "options": opts})
                    continue
                for j in (0, 1):
                    tb, ta, (ob, kb) = ze[2 * i + j]["dense"][0], bmap[d][j], bmap[d][2 + j]
                    col.bump("delay_elements")
                    if ta.get_id() == tb.get_id():
                        col.count("unsat")
                        continue
                    r, m = equiv.check(col, div.nonzero() + [ta != tb])
                    which = "expr" if j == 0 else "duration"
                    if r == "sat":
                        pt = equiv.point_from_model(m, [ta, tb])
                        diff = _replay(fb, names_b, ob, kb, fe, names_e, 2 * i + j, 0, pt)
                        if diff:
                            col.violation(f"{case}:delay:{d}:{which}", f"delay {which} differs after expansion",
                                          {"model_text": text, "options": opts, "point": pt, "unexpanded": diff[0], "expanded": diff[1]})
                        else:
                            col.note_inconclusive(f"{case}:delay:{d}:{which} sat did not replay")
                    elif r == "unknown":
                        col.note_inconclusive(f"{case}:delay:{d}:{which} unknown")
        # metadata rows under the renaming
        pn_b = [names_b[6]]
        pn_e = [names_e[6]]
        _, zb, _ = sx2z3(base_fns[2], pn_b, div)
        _, ze, _ = sx2z3(ex_fns[2], pn_e, div)
        cats = ["states", "alg_states", "inputs", "parameters", "constants"]
        for gi, cat in enumerate(cats):
            rows_b = [nm for v in getattr(base, cat) for nm in modelio.sym_elem_names(v.symbol)]
            rows_e = [rename[v.symbol.name()] for v in getattr(ex, cat)]
            nb, ne = len(rows_b), len(rows_e)
            for ri, nm in enumerate(rows_e):
                rb = rows_b.index(nm)
                for ci in range(6):
                    ta, tb = zb[gi]["dense"][ci * nb + rb], ze[gi]["dense"][ci * ne + ri]
                    col.bump("attribute_elements")
                    if ta.get_id() == tb.get_id():
                        col.count("unsat")
                        continue
                    r, m = equiv.check(col, div.nonzero() + [ta != tb])
                    if r == "sat":
                        pt = equiv.point_from_model(m, [ta, tb])
                        diff = _replay(base_fns[2], pn_b, gi, ci * nb + rb, ex_fns[2], pn_e, gi, ci * ne + ri, pt)
                        if diff:
                            col.violation(f"{case}:attr:{nm}:{ci}", f"attribute {('value','min','max','start','fixed','nominal')[ci]} of {nm} differs after expansion",
                                          {"model_text": text, "options": opts, "point": pt, "unexpanded": diff[0], "expanded": diff[1]})
                        else:
                            col.note_inconclusive(f"{case}:attr:{nm}:{ci} sat did not replay")
                    elif r == "unknown":
                        col.note_inconclusive(f"{case}:attr:{nm}:{ci} unknown")
        # python types; the `never set` marker of start (its numeric value 0 is in the metadata compared above, the fact that
        # it was never given is what detect_aliases / a user looks at) must be on exactly the elements of arrays that have it
        for cat in cats:
            tb_ = {nm: v for v in getattr(base, cat) for nm in modelio.sym_elem_names(v.symbol)}
            for v in getattr(ex, cat):
                bv = tb_[rename[v.symbol.name()]]
                if v.python_type is not bv.python_type:
                    col.violation(f"{case}:type:{v.symbol.name()}", "python type changed by expansion", {"model_text": text})
                for a in _ATTRS:
                    col.bump("unset_markers")
                    if _is_unset(getattr(v, a)) != _is_unset(getattr(bv, a)):
                        col.violation(f"{case}:unset:{v.symbol.name()}:{a}", f"attribute {a} of {v.symbol.name()} is {'the never-set default' if _is_unset(getattr(v, a)) else 'explicitly set (' + str(getattr(v, a)) + ')'}, "
                                      f"on the unexpanded array it is {'the never-set default' if _is_unset(getattr(bv, a)) else 'explicitly set'}", {"model_text": text, "options": opts})
        col.bump("programs")


def work(item):
    mid, text, variant = item if len(item) == 3 else item + (None,)
    col = Collector()
    try:
        if mid.startswith("tensor:"):
            check_tensor(col, mid, text)
        else:
            check(col, mid, text, variant)
        col.sample({"model": mid, "text": text}, 1)
    except EncodingGap as g:
        col.append("encoding_gaps", f"{mid}: {g}")
    except Exception:
        col.harness_error(f"{mid}: " + traceback.format_exc()[-1500:])
    return col


def main():
    args = std_args(PROP)
    rep = Report(PROP, args.tier, "translation_validation", args.seed)
    items = family(args.tier)
    items += [("repo:SimplifyVector", open(REPO + "/test/models/SimplifyVector.mo").read().replace("SimplifyVector", "M")),
              ("repo:DelayForLoop", open(REPO + "/test/models/DelayForLoop.mo").read().replace("DelayForLoop", "M"))]
    for col in run_parallel(work, items, args.jobs):
        rep.merge(col)
    cov = rep.coverage
    thorough = args.tier == "thorough"
    cov["disagreements_checked"] = rep.queries.get("sat", 0)
    cov["functions_encoded"] = ["Model._expand_vectors (via simplify, both code paths: with and without expand_mx)",
                                "dae/initial residual, variable_metadata, delay_arguments Functions before and after",
                                "Model.simplify detect_aliases pass consuming the expanded scalars (both compiles get the option)",
                                "a second _expand_vectors pass (iterative_simplification / repeated simplify)"]
    classes = {}
    for it in items:
        mid = it[0]
        k = (mid.split(":")[0] if ":" in mid else "hand-written") + (f" x {it[2]}" if len(it) == 3 and it[2] else "")
        classes[k] = classes.get(k, 0) + 1
    cov["family_models_per_class"] = classes
    cov["bounds"] = (
        f"{len(items)} (model, variant) pairs x 2 option sets (expand_vectors with / without expand_mx); all numeric values unbounded reals. "
        "Shapes [1], [3], [1,1], [1,3], [3,1], [2,2], [2,3], [3,2], components qq / qq[1] / qq[2] / qq[3] holding [3] arrays and scalars. "
        f"(A) attributes: state, algebraic, input, parameter (value and bounds), output state, constant of every shape, each of start/min/max/nominal/value "
        f"rotated through {NK} expression kinds ({', '.join(k for k, _ in ATTR_KINDS)}; lo, hi array parameters of the variable's shape, p scalar parameter), "
        "fixed as Boolean array literal or each; the same with the attributes given by modification of a component array from outside and written inside the "
        f"component class ({'all rotations' if args.tier == 'thorough' else 'all rotations for [2,3], [3,2] and qq[2], every second / fourth rotation for the other shapes / components'}); "
        "scalar attributes naming elements of array parameters; Integer/Boolean arrays. "
        f"(B) output lists: every sequence of {'1..4' if args.tier == 'thorough' else '1..3'} outputs over (differentiated state | algebraic) x (scalar | 1-D | 2-D) containing an array, "
        f"without and with interleaved non-output arrays / scalars{'' if args.tier == 'thorough' else ' (length 3: interleaved arrays only, and only where the first two outputs differ in state / algebraic kind)'}. "
        f"(C) delays: {len(DELAY_EXPRS)} delayed-expression kinds (whole vector, vector expression, element, element expression, whole 2-D array, 2-D elements, scalar, "
        f"inside 1-D and 2-D for-loops) x {len(DELAY_DURS)} duration kinds (literal, scalar parameter, elements of 1-D / 2-D array parameters, of an array constant and of fixed "
        "1-D / 2-D input arrays, sums and products of those), three delays per model, delays inside a component with its own array parameters. "
        "(D) initial equations over arrays, der of whole 2-D arrays, matrix*vector / transpose / slices / sum, repo models SimplifyVector and DelayForLoop. "
        "(E) declaration-only 3-D+ arrays (top-level [2,1,2]..[2,3,2], qq[2].A[2,3], rr[2,2].A[2,3], qq[2].r[3].x[2]): names, attribute elements, types, outputs compared "
        "concretely (no Functions exist for them without expand_vectors, pymoca cannot subscript them). "
        f"(F) boundary sizes (two-digit indices / delay numbers): the attribute generator for shapes {', '.join(_dd(d) for d in BIG_SHAPES)} "
        f"({'all rotations' if thorough else 'two rotations each'}), components qq[10] x [3], qq[2] x [11], qq x [12]{', qq[11] x [10]' if thorough else ''}; output lists of "
        f"{'1..3' if thorough else '1..2'} outputs with shapes [11], [10], [2,10], [10,1], [11,2]{' with and without interleaved arrays' if thorough else ''}; delays with "
        f"n = {'9, 10, 11, 12, 23' if thorough else '10, 12'}: delayed n-vector / vector expression, 2 x n and n x 2 matrices, n delays from a for-loop, a big vector delay between scalar "
        f"and matrix delays, n separate delay() calls, x {'all' if thorough else '2'} duration kinds. "
        f"(G) detect_aliases given to both compiles (variant `alias`): whole-array alias equations a = b / a = -b / b = a over shapes {', '.join(_dd(d) for d in ALIAS_SHAPES)}, "
        f"start of either partner never set | list literal | DM expression | each | array parameter | parameter expression (every pair the unexpanded alias merging accepts), "
        f"partner algebraic | differentiated state | input | inside a component{'' if thorough else ' (one partner kind and one orientation per shape x sign x start kind, rotating)'}, bounds, nominal and fixed on both partners; "
        "alias sets compared element by element. On every member of every class: the `never set` marker of start is on exactly the elements of the arrays that have it; "
        "delay states are in the order of the states they came from. "
        "(H) second expansion pass (variants `iter` = iterative_simplification, `twice` = simplify() called again) on the hand-written models and six generated ones."
    )
    rep.assumptions += ["real arithmetic; divisors non-zero", "naming convention of the statement: indices attach to the component level that declares the dimension, row-major order",
                        "delay states are named <state>[i,j] after the 2-D CasADi shape of the delayed expression (what the implementation has always produced; "
                        "the statement only asks that they are renamed like the rest of the model)",
                        "a model whose unexpanded Functions cannot be built is not compared (listed under unsupported_models) unless the expansion itself raises",
                        "variant `alias`: whole-array alias equations only, so that the unexpanded and the expanded alias detection see the same aliases; the expanded model "
                        "must then choose the same canonical variables element by element (holds on the unchanged code; not demanded by the statement itself)",
                        "every compile of a model text gets its own unpickled copy of one parse of that text (as pymoca's parse cache does)"]
    if not cov.get("programs"):
        rep.harness_error("nothing compared")
    if len(cov.get("unsupported_models", [])) > len(items) // 20:
        rep.harness_error(f"{len(cov['unsupported_models'])} of {len(items)} family members are not compiled by the unchanged generate(): the family no longer covers what the bounds say")
    return rep.finish()


if __name__ == "__main__":
    sys.exit(main())
