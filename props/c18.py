"""C18 - vector expansion is a faithful renaming to scalars (Engine B).

Real code: generate() + Model.simplify({'expand_vectors': True}) versus generate() alone.
* names: every array variable must expand to scalars named with 1-based Modelica indices placed at
  the component level that owns the dimension (a[1].x[2], der(v[3]), _pymoca_delay_0[2]) in row-major
  order, in the position of the original variable; outputs / delay states renamed alike;
* attributes: z3 proves the metadata Function of the expanded model equal, row by row under the
  renaming, to that of the unexpanded model for all parameter values;
* residuals: z3 proves expanded dae/initial residual and delay arguments equal to the unexpanded
  ones under x[i,j] -> element (i,j) for all values.
"""
import itertools
import sys
import traceback

import casadi as ca
import numpy as np

from vk.paths import REPO
from vk.report import Collector, EncodingGap, Report, run_parallel, std_args
from vk.smt import equiv, modelio, ops, pipeline
from vk.smt.ast2z3 import elem_name
from vk.smt.sx2z3 import sx2z3

PROP = "C18"

MODELS = {
 "vec1d": """model M
  parameter Real p = 2;
  parameter Real q[3] = {1, 2, 3};
  Real v[3](start = {1, 2, 3}, min = p, max = {4, 5, 6});
  output Real w[3](each nominal = 2);
  Real s;
  input Real u[2];
equation
  der(v) = -v .* q + w;
  w = 2 * v;
  s = v[1] + v[3] * u[2] - u[1];
end M;
""",
 "mat2d": """model M
  parameter Real p = 2;
  Real A[2,3](start = {{1, 2, 3}, {4, 5, 6}}, min = -p);
  output Real B[2,3];
  Real r[2];
  Real s[3](start = {7, 8, 9});
equation
  B = A + A;
  r = A * s;
  for i in 1:3 loop
    s[i] = A[1,i] - A[2,i] * i;
  end for;
  for i in 1:2 loop
    der(A[i,1]) = r[i];
  end for;
  A[1,2] = 1; A[1,3] = 2; A[2,2] = 3; A[2,3] = 4;
end M;
""",
 "comp-arrays": """model Q
  Real w[3](each start = 1.5);
  Real z;
  parameter Real g = 4;
equation
  z = w[1] + w[2] * g;
  der(w) = -w;
end Q;
model M
  Q qq[2];
  Real a;
equation
  a = qq[1].z + qq[2].w[3];
end M;
""",
 "comp-scalar-array": """model Q
  Real y;
  Real z;
equation
  y = 2 * z;
end Q;
model M
  Q qq[3];
  output Real a;
equation
  a = qq[1].y + qq[2].y + qq[3].y;
  for i in 1:3 loop
    qq[i].z = i;
  end for;
end M;
""",
 "delay-vec": """model M
  Real x[3];
  Real y[3];
  Real a[3];
  input Real z[3];
  input Real dt(fixed = true);
  parameter Real eps = 0.1;
equation
  for i in 2:3 loop
    x[i] = 5 * z[i] * eps;
    y[i] = delay(3 * a[i] * eps, dt);
  end for;
  a = x;
  x[1] = 1; y[1] = 2;
end M;
""",
 "delay-scalar": """model M
  Real x, y;
  Real v[2];
  parameter Real h = 3;
equation
  y = delay(x, 6 * h);
  x = time;
  v[1] = x; v[2] = y;
end M;
""",
 "int-attrs": """model M
  parameter Integer n[2,2] = {{1, 2}, {3, 4}};
  parameter Real z[2] = {0.5, 1.5};
  Integer k[2](start = {3, 4}, min = {0, 1});
  Real t;
equation
  k = {1, 2};
  t = z[1] + n[2,1];
end M;
""",
 "size1": """model M
  Real v[1](start = {3});
  output Real w[1];
  Real A[1,2];
equation
  der(v) = -v;
  w = v;
  A[1,1] = v[1]; A[1,2] = w[1];
end M;
""",
}


def expected_names(sym):
    """(expanded name, my element name) in expansion (row-major) order for an unexpanded symbol,
    or None if the symbol is a scalar that stays as is."""
    ms = sym._modelica_shape
    name = sym.name()
    if not (len(ms) > 0 and isinstance(ms[0], tuple)):
        ms = (tuple(ms),) if len(ms) else ((None,),)
    if set(ms) == {(None,)} or all(all(d is None for d in lv) for lv in ms):
        return None
    pre, core, post = "", name, ""
    while core.startswith("der(") and core.endswith(")"):
        pre, core, post = pre + "der(", core[4:-1], post + ")"
    parts = core.split(".")
    if len(parts) != len(ms):
        raise EncodingGap(f"{name}: {len(parts)} name parts but {len(ms)} shape levels")
    dims = [d for lv in ms for d in lv if d is not None]
    out = []
    n, m = sym.size1(), sym.size2()
    for ind in np.ndindex(*dims):
        k = 0
        segs = []
        for part, lv in zip(parts, ms):
            cnt = len([d for d in lv if d is not None])
            segs.append(part + ("[" + ",".join(str(i + 1) for i in ind[k:k + cnt]) + "]" if cnt else ""))
            k += cnt
        exp = pre + ".".join(segs) + post
        mine = elem_name(name, tuple(ind))
        out.append((exp, mine))
    return out


def check(col, mid, text):
    try:
        base = pipeline.real_generate(text, "M")
        base_fns = (base.dae_residual_function, base.initial_residual_function, base.variable_metadata_function,
                    base.delay_arguments_function)
    except Exception as e:
        col.append("unsupported_models", f"{mid}: {type(e).__name__}: {str(e)[:80]}")
        return
    for opts in ({"expand_vectors": True}, {"expand_vectors": True, "expand_mx": True}):
        case = f"{mid}|mx{int(bool(opts.get('expand_mx')))}"
        try:
            ex = pipeline.real_generate(text, "M", opts)
            ex.simplify(dict(opts))
            ex_fns = (ex.dae_residual_function, ex.initial_residual_function, ex.variable_metadata_function,
                      ex.delay_arguments_function)
        except Exception as e:
            col.violation(f"{case}:raises:{type(e).__name__}", f"expand_vectors raises {type(e).__name__}: {str(e)[-100:]} on a model that compiles without it",
                          {"model_text": text, "options": opts})
            continue
        rename = {}
        ok = True
        delay_map = {}
        for cat in ["states", "der_states", "alg_states", "inputs", "parameters", "constants"]:
            want = []
            for v in getattr(base, cat):
                is_delay = v.symbol.name() in base.delay_states
                en = expected_names(v.symbol)
                if en is None and is_delay:
                    # delay states are always expanded (they carry no reliable shape)
                    n = v.symbol.numel()
                    en = [(f"{v.symbol.name()}[{i + 1}]", elem_name(v.symbol.name(), (i,)) if n > 1 or v.symbol._modelica_shape != () else v.symbol.name()) for i in range(n)]
                    en = [(a, modelio.sym_elem_names(v.symbol)[i]) for i, (a, _) in enumerate(en)]
                if en is None:
                    want.append((v.symbol.name(), v.symbol.name()))
                else:
                    want.extend(en)
                if is_delay:
                    delay_map[v.symbol.name()] = [a for a, _ in (en or [(v.symbol.name(), None)])]
            got = [v.symbol.name() for v in getattr(ex, cat)]
            if got != [a for a, _ in want]:
                col.violation(f"{case}:{cat}:names", f"expanded {cat} are {got}, expected {[a for a, _ in want]}", {"model_text": text, "options": opts})
                ok = False
            for a, b in want:
                rename[a] = b
            for v in getattr(ex, cat):
                if v.symbol.numel() != 1:
                    col.violation(f"{case}:{cat}:{v.symbol.name()}:not-scalar", "expanded variable is not a scalar", {"model_text": text})
                    ok = False
        if not ok:
            continue
        # outputs / delay states
        want_out = []
        for o in base.outputs:
            sym = next(v.symbol for v in base.states + base.alg_states if v.symbol.name() == o)
            en = expected_names(sym)
            want_out += [a for a, _ in en] if en else [o]
        if list(ex.outputs) != want_out:
            col.violation(f"{case}:outputs", f"outputs {list(ex.outputs)}, expected {want_out}", {"model_text": text, "options": opts})
        want_delay = [n for d in base.delay_states for n in delay_map[d]]
        if sorted(ex.delay_states) != sorted(want_delay):
            col.violation(f"{case}:delay_states", f"delay states {list(ex.delay_states)}, expected {want_delay}", {"model_text": text, "options": opts})
        # functions under the renaming
        names_b = modelio.model_in_names(base)
        names_e = [[rename.get(s.name(), s.name()) for s in g] for g in modelio.model_groups(ex)]
        div = ops.Divisors()
        for fi, fname in enumerate(["dae_residual", "initial_residual"]):
            fb, fe = base_fns[fi], ex_fns[fi]
            if fb.n_out() == 0 and fe.n_out() == 0:
                continue
            _, zb, _ = sx2z3(fb, names_b, div)
            _, ze, _ = sx2z3(fe, names_e, div)
            a, b = zb[0]["dense"], ze[0]["dense"]
            if len(a) != len(b):
                col.violation(f"{case}:{fname}:length", f"{fname} has {len(b)} rows expanded, {len(a)} unexpanded", {"model_text": text, "options": opts})
                continue
            for k, (ta, tb) in enumerate(zip(a, b)):
                col.bump("residual_elements")
                if ta.get_id() == tb.get_id():
                    col.count("unsat")
                    continue
                r, m = equiv.check(col, div.nonzero() + [ta != tb])
                if r == "sat":
                    pt = equiv.point_from_model(m, [ta, tb])
                    va = modelio.eval_function(fb, names_b, pt)[0][k]
                    vb = modelio.eval_function(fe, names_e, pt)[0][k]
                    if not equiv.close(va, vb):
                        col.violation(f"{case}:{fname}[{k}]", f"{fname} element {k} differs from the unexpanded residual under the renaming",
                                      {"model_text": text, "options": opts, "point": pt, "unexpanded": va, "expanded": vb})
                    else:
                        col.note_inconclusive(f"{case}:{fname}[{k}] sat did not replay")
                elif r == "unknown":
                    col.note_inconclusive(f"{case}:{fname}[{k}] unknown")
        # delay arguments: match by delay state name
        fb, fe = base_fns[3], ex_fns[3]
        if fb.n_out():
            _, zb, _ = sx2z3(fb, names_b, div)
            _, ze, _ = sx2z3(fe, names_e, div)
            bmap = {}
            for i, d in enumerate(base.delay_states):
                exprs, dur = zb[2 * i]["dense"], zb[2 * i + 1]["dense"]
                for k, nm in enumerate(delay_map[d]):
                    bmap[nm] = (exprs[k] if len(exprs) > 1 else exprs[0], dur[0])
            for i, d in enumerate(ex.delay_states):
                if d not in bmap:
                    continue
                for j, (tb, ta) in enumerate(zip((ze[2 * i]["dense"][0], ze[2 * i + 1]["dense"][0]), bmap[d])):
                    col.bump("delay_elements")
                    if ta.get_id() != tb.get_id():
                        r, m = equiv.check(col, div.nonzero() + [ta != tb])
                        if r == "sat":
                            col.violation(f"{case}:delay:{d}:{'expr' if j == 0 else 'duration'}", "delay argument differs after expansion",
                                          {"model_text": text, "options": opts})
                    else:
                        col.count("unsat")
        # metadata rows under the renaming
        pn_b = [names_b[6]]
        pn_e = [names_e[6]]
        _, zb, _ = sx2z3(base_fns[2], pn_b, div)
        _, ze, _ = sx2z3(ex_fns[2], pn_e, div)
        cats = ["states", "alg_states", "inputs", "parameters", "constants"]
        for gi, cat in enumerate(cats):
            rows_b = [nm for v in getattr(base, cat) for nm in modelio.sym_elem_names(v.symbol)]
            rows_e = [rename[v.symbol.name()] for v in getattr(ex, cat)]
            nb, ne = len(rows_b), len(rows_e)
            for ri, nm in enumerate(rows_e):
                rb = rows_b.index(nm)
                for ci in range(6):
                    ta, tb = zb[gi]["dense"][ci * nb + rb], ze[gi]["dense"][ci * ne + ri]
                    col.bump("attribute_elements")
                    if ta.get_id() == tb.get_id():
                        col.count("unsat")
                        continue
                    r, m = equiv.check(col, div.nonzero() + [ta != tb])
                    if r == "sat":
                        col.violation(f"{case}:attr:{nm}:{ci}", f"attribute {('value','min','max','start','fixed','nominal')[ci]} of {nm} differs after expansion",
                                      {"model_text": text, "options": opts})
        # python types
        for cat in cats:
            tb_ = {nm: v.python_type for v in getattr(base, cat) for nm in modelio.sym_elem_names(v.symbol)}
            for v in getattr(ex, cat):
                if v.python_type is not tb_[rename[v.symbol.name()]]:
                    col.violation(f"{case}:type:{v.symbol.name()}", "python type changed by expansion", {"model_text": text})
        col.bump("programs")


def work(item):
    mid, text = item
    col = Collector()
    try:
        check(col, mid, text)
        col.sample({"model": mid, "text": text}, 1)
    except EncodingGap as g:
        col.append("encoding_gaps", f"{mid}: {g}")
    except Exception:
        col.harness_error(f"{mid}: " + traceback.format_exc()[-1500:])
    return col


def main():
    args = std_args(PROP)
    rep = Report(PROP, args.tier, "translation_validation", args.seed)
    items = list(MODELS.items())
    items += [("repo:SimplifyVector", open(REPO + "/test/models/SimplifyVector.mo").read().replace("SimplifyVector", "M")),
              ("repo:DelayForLoop", open(REPO + "/test/models/DelayForLoop.mo").read().replace("DelayForLoop", "M"))]
    for col in run_parallel(work, items, args.jobs):
        rep.merge(col)
    cov = rep.coverage
    cov["disagreements_checked"] = rep.queries.get("sat", 0)
    cov["functions_encoded"] = ["Model._expand_vectors (via simplify, both code paths: with and without expand_mx)",
                                "dae/initial residual, variable_metadata, delay_arguments Functions before and after"]
    cov["bounds"] = "arrays up to 3 / 2x3, arrays of components holding arrays, derivative arrays, delayed arrays, size-1 arrays; all values unbounded reals"
    rep.assumptions += ["real arithmetic; divisors non-zero", "naming convention of the statement: indices attach to the component level that declares the dimension, row-major order"]
    if not cov.get("programs"):
        rep.harness_error("nothing compared")
    return rep.finish()


if __name__ == "__main__":
    sys.exit(main())
