"""C17 - alias relation is a signed equivalence under any operation history (Engine C + replay).

Deciding step: the Python source of /repo/src/pymoca/backends/casadi/alias_relation.py is interpreted
symbolically (vk/pysym/interp.py) from an ARBITRARY pre-state satisfying a content-based
representation invariant; z3 proves, for symbolic arguments, that one add / remove / copy / observer
call raises nothing, preserves the invariant, changes the signed partition exactly as the signed
union-find specification says, and touches no set object the relation does not own.  One inductive
step covers histories of any length over the universe (N base names, both signs).

A `sat` answer is replayed: the real class is explored exhaustively up to state equivalence
(vk/pysym/concrete.py) against the executable specification; only a failing real history is reported
as VIOLATION.  The same exploration validates the translator: every real transition is pushed
through the encoding concretely and must give the real post-state."""
import sys
import time
import traceback

import z3

from vk.report import Collector, EncodingGap, Report, run_parallel, std_args

PROP = "C17"
OPS = ("add", "remove", "copy", "observers")


def _solve(premise, goal, timeout_ms):
    s = z3.Solver()
    s.set("timeout", timeout_ms)
    s.add(*premise)
    s.add(z3.Not(goal))
    t = time.time()
    r = str(s.check())
    return r, (s.model() if r == "sat" else None), time.time() - t


def _model_prestate(enc, model):
    """Readable dump of the pre-state and arguments of a counterexample."""
    from vk.pysym.concrete import names
    U = names(enc.N)
    v = enc.pre
    ev = lambda t: model.eval(t, model_completion=True)
    out = {"args": {}, "aliases": {}, "map": {}, "canonical": []}
    for k, nm in enc.args.items():
        i = ev(2 * z3.IntVal(0) + (2 * (nm.base if isinstance(nm.base, z3.ExprRef) else z3.IntVal(nm.base)) + (nm.n if isinstance(nm.n, z3.ExprRef) else z3.IntVal(nm.n)))).as_long()
        out["args"][k] = U[i] if 0 <= i < len(U) else f"<id {i}>"
    for k in range(len(U)):
        if z3.is_true(ev(v.p0[k])):
            bits = ev(v.S(k)).as_long()
            out["aliases"][U[k]] = [U[j] for j in range(len(U)) if bits >> j & 1]
        if z3.is_true(ev(v.p1[k])):
            out["map"][U[k]] = [U[ev(2 * v.cb[k] + v.cn[k]).as_long()], ev(v.cs[k]).as_long()]
    cb = ev(v.canon).as_long()
    out["canonical"] = [U[j] for j in range(len(U)) if cb >> j & 1]
    return out


def work(task):
    """task = (kind, op, N, order, goal_indices, timeout_ms)"""
    col = Collector()
    kind = task[0]
    try:
        if kind == "goals":
            _, op, N, order, idxs, to = task
            from vk.pysym.alias_model import Encoding
            enc = Encoding(op, N, order)
            res = []
            for i in idxs:
                lab, goal = enc.goals[i]
                r, model, secs = _solve(enc.premise, goal, to)
                col.count(r)
                col.solver_time += secs
                item = {"op": op, "N": N, "order": order, "goal": lab, "result": r, "secs": round(secs, 2)}
                if r == "sat":
                    item["pre"] = _model_prestate(enc, model)
                res.append(item)
            col.lists["results"] = res
            if idxs and idxs[0] == 0:
                # reachability witness: the premise (invariant + argument premise) is satisfiable with a non-trivial state
                s = z3.Solver()
                s.set("timeout", to)
                s.add(*enc.premise)
                s.add(*enc.reach)
                rr = str(s.check())
                col.lists["reach"] = [{"op": op, "N": N, "order": order, "result": rr}]
                # vacuity canary: a deliberately wrong specification must be refutable
                lab, wrong = _wrong_goal(enc)
                r, _, secs = _solve(enc.premise, wrong, to)
                col.lists["canary"] = [{"op": op, "N": N, "order": order, "canary": lab, "result": r}]
                col.lists["meta"] = [{"op": op, "N": N, "order": order, "n_goals": len(enc.goals), "heap_cells": len(enc.m.cells),
                                      "error_kinds": enc.error_kinds}]
        elif kind == "base":
            _, N = task
            from vk.pysym.alias_model import empty_ok
            m, fs = empty_ok(N)
            s = z3.Solver()
            s.add(z3.Not(z3.And(fs)))
            r = str(s.check())
            col.count(r)
            col.lists["results"] = [{"op": "__init__", "N": N, "order": "-", "goal": "inv(empty)", "result": r, "secs": 0}]
        elif kind == "validate":
            _, N, w, nw = task
            col.lists["validate"] = [validate_translator(N, w, nw)]
    except EncodingGap as g:
        col.lists["gaps"] = [f"{task[:4]}: {g}"]
    except Exception:
        col.harness_error(f"{task[:4]}: " + traceback.format_exc()[-1500:])
    return col


def _wrong_goal(enc):
    """A false claim about the operation (must be sat)."""
    m, U = enc.m, enc.m.U
    pre, post = enc.pre, enc.post
    if enc.op == "add":
        return "add-changes-nothing", z3.And([post.S(k) == pre.S(k) for k in range(U)])
    if enc.op == "remove":
        return "remove-changes-nothing", z3.And([post.S(k) == pre.S(k) for k in range(U)])
    if enc.op == "copy":
        return "copy-shares-sets", z3.Or([z3.And(post.p0[k], post.ref[k] < len(pre.cells)) for k in range(U)])
    return "canonical-is-always-self", z3.And([z3.Implies(pre.p1[k], 2 * pre.cb[k] + pre.cn[k] == k) for k in range(U)])


# ------------------------------------------------------------------------------------------------
def _subst_for(enc, r, argvals):
    """Concrete values for every pre-state variable of `enc` from the real object r."""
    from vk.pysym.concrete import names
    U = names(enc.N)
    idx = {n: i for i, n in enumerate(U)}
    v = enc.pre
    sub = []
    ids = {}
    for k, nm in enumerate(U):
        if nm in r._aliases:
            s = r._aliases[nm]
            ref = ids.setdefault(id(s), len(ids))
            sub.append((v.p0[k], z3.BoolVal(True)))
            sub.append((v.ref[k], z3.IntVal(ref)))
        else:
            sub.append((v.p0[k], z3.BoolVal(False)))
            sub.append((v.ref[k], z3.IntVal(0)))
        if nm in r._canonical_variables_map:
            c, s = r._canonical_variables_map[nm]
            ci = idx[c]
            sub += [(v.p1[k], z3.BoolVal(True)), (v.cb[k], z3.IntVal(ci // 2)), (v.cn[k], z3.IntVal(ci % 2)), (v.cs[k], z3.IntVal(s))]
        else:
            sub += [(v.p1[k], z3.BoolVal(False)), (v.cb[k], z3.IntVal(0)), (v.cn[k], z3.IntVal(0)), (v.cs[k], z3.IntVal(1))]
    cells = [0] * len(v.cells)
    by_ref = {}
    for nm in r._aliases:
        by_ref[ids[id(r._aliases[nm])]] = r._aliases[nm]
    for ref, s in by_ref.items():
        cells[ref] = sum(1 << idx[x] for x in s)
    cells[v.canon_ref] = sum(1 << idx[x] for x in r._canonical_variables)
    for i, c in enumerate(v.cells):
        sub.append((c, z3.BitVecVal(cells[i], len(U))))
    for k, nm in enc.args.items():
        i = idx[argvals[k]]
        sub += [(nm.base, z3.IntVal(i // 2)), (nm.n, z3.IntVal(i % 2))]
    return sub


def validate_translator(N, w, nw):
    """Every transition of the real class reachable at size N (those with index % nw == w) must be
    reproduced by the encoding evaluated at the same concrete pre-state."""
    from pymoca.backends.casadi.alias_relation import AliasRelation
    from vk.pysym.alias_model import Encoding
    from vk.pysym.concrete import explore, names
    U = names(N)
    idx = {n: i for i, n in enumerate(U)}
    encs = {"add": Encoding("add", N), "remove": Encoding("remove", N)}
    stats = {"transitions": 0, "mismatches": [], "N": N}
    counter = [0]

    def on_tr(r, op, r2):
        counter[0] += 1
        if counter[0] % nw != w:
            return
        enc = encs[op[0]]
        argvals = {"a": op[1]} if op[0] == "remove" else {"a": op[1], "b": op[2]}
        sub = _subst_for(enc, r, argvals)
        post = enc.post
        ev = lambda t: z3.simplify(z3.substitute(t, *sub))
        stats["transitions"] += 1
        if not z3.is_true(ev(enc.no_error)):
            stats["mismatches"].append(f"{op}: encoding predicts an exception, real code ran")
            return
        for k, nm in enumerate(U):
            want = frozenset(r2.aliases(nm))
            got_bits = ev(post.S(k)).as_long()
            got = frozenset(U[j] for j in range(len(U)) if got_bits >> j & 1)
            pk = z3.is_true(ev(post.p0[k]))
            if got != want or pk != (nm in r2._aliases):
                stats["mismatches"].append(f"{op}: aliases[{nm}] real {sorted(want)} encoding {sorted(got)}")
                return
            p1 = z3.is_true(ev(post.p1[k]))
            if p1 != (nm in r2._canonical_variables_map):
                stats["mismatches"].append(f"{op}: map presence of {nm}")
                return
            if p1:
                c, s = r2._canonical_variables_map[nm]
                if (ev(2 * post.cb[k] + post.cn[k]).as_long(), ev(post.cs[k]).as_long()) != (idx[c], s):
                    stats["mismatches"].append(f"{op}: map[{nm}]")
                    return
        cb = ev(post.canon).as_long()
        if frozenset(U[j] for j in range(len(U)) if cb >> j & 1) != frozenset(r2._canonical_variables):
            stats["mismatches"].append(f"{op}: canonical set")

    explore(AliasRelation, N, on_transition=on_tr)
    return stats


def main():
    a = std_args(PROP)
    if a.replay:
        import json
        from pymoca.backends.casadi.alias_relation import AliasRelation
        from vk.pysym.concrete import replay_history
        hist = json.load(open(a.replay))["replay"]["history"]
        bad = replay_history(AliasRelation, 4, hist)
        print(f"replay {hist}: {bad or 'holds'}")
        return 1 if bad else 0
    rep = Report(PROP, a.tier, "model_checking", a.seed)
    N = 3
    to = 300_000 if a.tier == "quick" else 900_000
    tasks = [("base", N)]
    orders = ("asc", "desc")
    try:
        from vk.pysym.alias_model import Encoding
        ngoals = {op: len(Encoding(op, 2).goals) for op in OPS}  # goal count is 4 + k*U; recomputed per N below
    except EncodingGap as g:
        ngoals = None
        rep.harness_error(f"EncodingGap: the source of alias_relation.py uses a construct outside the encoding: {g}")
    if ngoals is not None:
        for op in OPS:
            for order in orders:
                n = len(Encoding(op, N, order).goals)
                step = 1 if op == "add" else 6
                for i in range(0, n, step):
                    tasks.append(("goals", op, N, order, list(range(i, min(n, i + step))), to))
        nw = 8
        tasks += [("validate", N, w, nw) for w in range(nw)]
        if a.tier == "thorough":
            # N = 4: attempted; any unknown keeps the claimed bound at N = 3
            for op in OPS:
                n = len(Encoding(op, 4, "asc").goals)
                for i in range(n):
                    tasks.append(("goals", op, 4, "asc", [i], 1_500_000))
    # longest first
    tasks.sort(key=lambda t: 0 if (t[0] == "goals" and t[2] == 4) else 1)
    results, reach, canary, meta, gaps, val = [], [], [], [], [], []
    for col in run_parallel(work, tasks, a.jobs):
        rep.merge(col)
        results += col.lists.get("results", [])
        reach += col.lists.get("reach", [])
        canary += col.lists.get("canary", [])
        meta += col.lists.get("meta", [])
        gaps += col.lists.get("gaps", [])
        val += col.lists.get("validate", [])
    for k in ("results", "reach", "canary", "meta", "gaps", "validate"):
        rep.coverage.pop(k, None)
    for g in gaps:
        rep.harness_error("EncodingGap: " + g)
    # --- concrete exploration of the real class: replay vehicle + independent evidence
    from pymoca.backends.casadi.alias_relation import AliasRelation
    from vk.pysym.concrete import explore, replay_history
    t = time.time()
    ex = explore(AliasRelation, 4, max_states=100000)  # 4 base names: two non-trivial classes can coexist and merge
    ex_s = time.time() - t
    sat = [r for r in results if r["result"] == "sat"]
    unknown = [r for r in results if r["result"] not in ("sat", "unsat")]
    bound_n = 3
    n4 = [r for r in results if r["N"] == 4]
    if n4 and all(r["result"] == "unsat" for r in n4):
        bound_n = 4
    for r in unknown:
        if r["N"] == 3:
            rep.note_inconclusive(f"{r['op']}/{r['order']}/{r['goal']}: {r['result']}")
    if ex["violation"]:
        hist, what = ex["violation"]
        bad = replay_history(AliasRelation, 4, hist)
        if bad:
            rep.violation("history:" + ";".join(",".join(op) for op in hist), f"real AliasRelation after {list(hist)}: {bad}",
                          {"history": [list(op) for op in hist], "what": bad, "solver_goals_refuted": [f"{r['op']}:{r['goal']}" for r in sat][:10]})
        else:
            rep.harness_error("exploration reported a violation that does not replay: " + what)
    elif sat:
        # the solver refuted an obligation from a pre-state no real history (N=3, explored to a fixpoint) exposes
        for r in sat[:5]:
            rep.harness_error(f"solver counterexample for {r['op']}:{r['goal']} (N={r['N']}, order {r['order']}) from pre-state {r.get('pre')} "
                              f"is not reproduced by any real history: the invariant is too weak for this source, or the encoding no longer matches it")
    for c in canary:
        if c["result"] != "sat":
            rep.harness_error(f"vacuity canary {c} was not refuted")
    for c in reach:
        if c["result"] != "sat":
            rep.harness_error(f"reachability witness {c}: premise unsatisfiable or unknown")
    nval = sum(v["transitions"] for v in val)
    for v in val:
        for mm in v["mismatches"][:3]:
            rep.harness_error("translator validation: " + mm)
    cov = rep.coverage
    cov["states"] = ex["states"]
    cov["transitions"] = ex["transitions"]
    cov["exhaustive"] = bool(ex["complete"] and not unknown and not gaps)
    cov["traces_validated_against_impl"] = nval
    cov["samples"] = [r for r in results if r["N"] == 3][:8]
    cov["functions_encoded"] = ["AliasRelation.__init__, add, remove, copy, aliases, canonical_signed, canonical_variables, __iter__, __toggle_sign, __is_negative "
                                "(Python AST of /repo/src/pymoca/backends/casadi/alias_relation.py interpreted over z3 terms)"]
    cov["bounds"] = (f"universe of N={bound_n} base names x 2 signs; ONE operation from an arbitrary pre-state satisfying the representation invariant "
                     "(covers histories of any length over that universe); symbolic arguments; set-iteration unrolled in ascending and descending order")
    cov["obligations"] = len(results)
    cov["discharged"] = sum(r["result"] == "unsat" for r in results)
    cov["obligation_results"] = {"total": len(results), "unsat": sum(r["result"] == "unsat" for r in results), "sat": len(sat), "unknown": len(unknown)}
    if n4:
        cov["n4_attempt"] = {"goals": len(n4), "unsat": sum(r["result"] == "unsat" for r in n4),
                             "not_unsat": [f"{r['op']}:{r['goal']}:{r['result']}" for r in n4 if r["result"] != "unsat"][:20]}
    cov["encoding"] = meta[:8]
    cov["reachability_witnesses"] = reach
    cov["vacuity_canaries"] = canary
    cov["real_class_exploration"] = {"N": 4, "states_up_to_equivalence": ex["states"], "transitions_checked": ex["transitions"],
                                     "fixpoint_reached": ex["complete"], "secs": round(ex_s, 2)}
    cov["translator_validation"] = {"real_transitions_pushed_through_encoding": nval, "mismatches": sum(len(v["mismatches"]) for v in val)}
    rep.assumptions += [
        "names are modelled as (base name, number of leading '-'): only 0 or 1 leading '-' is inside the universe; leaving it is an error obligation",
        "remove(a) deletes a's class iff a is currently a canonical name (the contract model.py relies on); otherwise it is a no-op",
        "independence of copies is composed from two proved facts: copy() returns an object whose dicts and set objects are all fresh, and every "
        "operation leaves set objects it does not reference untouched (frame obligation, with 2 unrelated set objects in the heap)",
        "OrderedDict iteration order is not observable through the modelled API; set iteration order is covered by two unrollings, not all permutations",
        "the property's premise (no variable related to its own negation) is assumed for add(a, b): -b not in class(a)",
    ]
    return rep.finish()


if __name__ == "__main__":
    sys.exit(main())
