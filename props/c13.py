"""C13 - variable metadata reports the declared attributes (Engine B).

Real code: generate() -> Generator._ast_symbols_to_variables (coercions) -> Variable attributes,
and Model.variable_metadata_function (including the affine rebuild A*p+b).  For each enumerated
model the metadata Function and every symbolic Variable attribute are translated to z3 and proved
equal, for ALL parameter values, to the reference meaning (ast2z3) of the flat symbol's attribute
expression; defaults and Python types are compared concretely.
"""
import math
import sys
import traceback

import casadi as ca
import numpy as np
import z3

from vk.report import Collector, EncodingGap, Report, run_parallel, std_args
from vk.smt import equiv, modelio, ops, pipeline
from vk.smt.ast2z3 import Ref, flat_colmajor, shape_of
from vk.smt.sx2z3 import sx2z3
from pymoca import ast

PROP = "C13"
ATTRS = ("value", "min", "max", "start", "fixed", "nominal")  # order of CASADI_ATTRIBUTES
DEFAULTS = {"value": float("nan"), "start": 0, "min": float("-inf"), "max": float("inf"), "nominal": 0, "fixed": False}

EXPRS = ["3", "2.5", "-4", "p", "-q", "2 * p + q", "p - 3 * q + 1", "p * q", "p / q", "max(p, q)", "p ^ 2",
         "if p > q then p else q", "sin(p)", "(p + q) * (p - q)", "min(p, 2) + abs(q)", "p * 2 / 4 - q", "1 / p"]
AEXPRS = ["{1, 2, 3}", "p", "{1.5, -2, 3}", "2 * p + q", "{0, 0, 0}", "max(p, q)", "p * q", "-1", "{4, 5, 6}", "p / q"]


def scalar_model(i):
    e = lambda k: EXPRS[(i + k) % len(EXPRS)]
    return f"""model M
  parameter Real p = 2;
  parameter Real q = 3;
  parameter Real r = {e(5)};
  parameter Real s(min = {e(6)}, max = {e(7)}) = 1.5;
  constant Real k = 4;
  Real x(start = {e(0)}, min = {e(1)}, max = {e(2)}, nominal = {e(3)}, fixed = true);
  Real y(start = {e(4)}, max = {e(8)});
  Real z(min = {e(9)}, nominal = {e(10)});
  input Real u(min = {e(11)}, max = {e(12)}, fixed = {'true' if i % 2 else 'false'});
  Real w;
equation
  der(x) = -x + u;
  y = x; z = y; w = z;
end M;
"""


def typed_model(i):
    iv = [3, -2, 7, 0, 12][i % 5]
    return f"""model M
  parameter Integer np = {iv};
  parameter Real p = 2;
  parameter Boolean flag = {'true' if i % 2 else 'false'};
  Integer n(start = {iv}, min = {iv - 5}, max = {iv + 5});
  Integer m(start = np);
  Boolean b(start = {'false' if i % 2 else 'true'});
  Real x(start = {iv}, min = {iv - 1}, nominal = {abs(iv) + 1});
  Real y(start = {iv}.5);
  constant Integer kc = {iv + 1};
  parameter Integer ne = 2 * {abs(iv) + 1};
  constant Integer ke = {iv} - 4;
  Integer n2(start = 2 * {iv}, max = 10 * 100, min = -(4 + {abs(iv)}));
  Integer n3(start = sum({{1, {abs(iv)}}}));
  Real x2(start = 2 * {iv}, nominal = 10 / 4);
equation
  n = 1; m = 2; b = true; x = 1; y = 2; n2 = 3; n3 = 4; x2 = 5;
end M;
"""


def array_model(i):
    e = lambda k: AEXPRS[(i + k) % len(AEXPRS)]
    A = ["{{1, 2}, {3, 4}}", "p", "{{0.5, -1}, {2, 7}}", "p * q - 1"][i % 4]
    return f"""model M
  parameter Real p = 2;
  parameter Real q = 3;
  parameter Real pv[3] = {{1, 2, 3}};
  Real v[3](start = {e(0)}, min = {e(1)}, max = {e(2)});
  Real w[3](nominal = {e(3)}, start = {e(4)});
  Real A[2,2](start = {A}, min = p - q);
  input Real uu[2](max = {{5, 6}}, min = -p);
  Real t;
equation
  der(v) = -v;
  w = v; t = 1;
end M;
"""


ARRAY_REFS = """model M
  parameter Real p = 2;
  parameter Real q = 3;
  Real v[3](start = {p, 2 * q, p + q});
equation
  der(v) = -v;
end M;
"""


def ref_attr_terms(ref, sym, attr, numel, dims):
    node = getattr(sym, attr)
    if isinstance(node, ast.Primary) and node.value is None or (attr == "fixed" and isinstance(node, ast.Primary) and node.value is False):
        return [ops.const(DEFAULTS[attr])] * numel, True
    v = ref.ev(node)
    if isinstance(v, list):
        fl = flat_colmajor(v) if len(shape_of(v)) <= 2 else None
        if fl is None or len(fl) != numel:
            raise EncodingGap(f"attribute {attr} of {sym.name}: shape {shape_of(v)} for {numel} elements")
        return fl, False
    return [v] * numel, False


def check_model(col, text, case):
    model = pipeline.real_generate(text, "M")
    flat = pipeline.flat_reference(text, "M")
    fc = flat.classes["M"]
    ref = Ref(flat, "M")
    pnames = [nm for s in model._symbols(model.parameters) for nm in modelio.sym_elem_names(s)]
    f = model.variable_metadata_function
    _, zout, div = sx2z3(f, [pnames], ref.div)
    groups = [model.states, model.alg_states, model.inputs, model.parameters, model.constants]
    if len(zout) != len(groups):
        col.violation(case + ":n_out", "metadata function has wrong number of outputs", {"model_text": text})
        return
    for gi, (group, out) in enumerate(zip(groups, zout)):
        rows = sum(v.symbol.numel() for v in group)
        if out["shape"] != (rows, 6) and not (rows == 0):
            col.violation(f"{case}:g{gi}:shape", f"metadata output {gi} has shape {out['shape']}, expected {(rows, 6)}", {"model_text": text})
            continue
        r0 = 0
        for v in group:
            name = v.symbol.name()
            sym = fc.symbols[name]
            n = v.symbol.numel()
            # python type
            want = {"Real": float, "Integer": int, "Boolean": bool}.get(sym.type.name, float)
            if v.python_type is not want:
                col.violation(f"{case}:{name}:python_type", f"{name}: python_type {v.python_type.__name__}, declared {sym.type.name}", {"model_text": text})
            for ci, attr in enumerate(ATTRS):
                want_terms, is_default = ref_attr_terms(ref, sym, attr, n, None)
                got_terms = [out["dense"][ci * rows + r0 + k] for k in range(n)]
                assume = div.nonzero()
                for k, (g, w) in enumerate(zip(got_terms, want_terms)):
                    col.bump("attribute_elements")
                    if g.get_id() == w.get_id():
                        col.count("unsat")
                    else:
                        r, m = equiv.check(col, assume + [g != w])
                        if r == "sat":
                            pt = equiv.point_from_model(m, [g, w])
                            conf = replay_meta(f, pnames, gi, ci * rows + r0 + k, w, pt)
                            if conf:
                                col.violation(f"{case}:{name}.{attr}[{k}]", f"metadata function: {name}.{attr} differs from the declared expression", {"model_text": text, "detail": conf})
                            else:
                                col.note_inconclusive(f"{case}:{name}.{attr}[{k}] sat did not replay")
                        elif r == "unknown":
                            col.note_inconclusive(f"{case}:{name}.{attr}[{k}] unknown")
                # the attribute on the Variable object itself
                val = getattr(v, attr)
                check_object_attr(col, model, case, text, name, attr, val, want_terms, is_default, pnames, div, want, sym)
            r0 += n


def replay_meta(f, pnames, gi, idx, wterm, pt):
    for p in equiv.perturbations(pt, 0):
        try:
            got = modelio.eval_function(f, [pnames], p)[gi][idx]
            want = equiv.z3eval(wterm, pipeline._Default(p))
        except Exception:
            continue
        if not equiv.close(got, want):
            return {"point": p, "impl": got, "ref": want}
    return None


def check_object_attr(col, model, case, text, name, attr, val, want_terms, is_default, pnames, div, ptype, sym):
    psyms = model._symbols(model.parameters)
    if isinstance(val, ca.MX) and not val.is_constant():
        fa = ca.Function("a", [ca.veccat(*psyms)], [val], {"allow_free": False})
        _, zo, _ = sx2z3(fa, [pnames], div)
        got = zo[0]["dense"]
        if len(got) == 1 and len(want_terms) > 1:
            got = got * len(want_terms)
        if len(got) != len(want_terms):
            col.violation(f"{case}:{name}.{attr}:obj-shape", f"Variable {name}.{attr} has {len(got)} elements, expected {len(want_terms)}", {"model_text": text})
            return
        for k, (g, w) in enumerate(zip(got, want_terms)):
            if g.get_id() == w.get_id():
                col.count("unsat")
                continue
            r, m = equiv.check(col, div.nonzero() + [g != w])
            if r == "sat":
                pt = equiv.point_from_model(m, [g, w])
                conf = None
                for p in equiv.perturbations(pt, 0):
                    try:
                        gv = modelio.eval_function(fa, [pnames], p)[0]
                        gv = gv[k] if len(gv) > 1 else gv[0]
                        wv = equiv.z3eval(w, pipeline._Default(p))
                    except Exception:
                        continue
                    if not equiv.close(gv, wv):
                        conf = {"point": p, "impl": gv, "ref": wv}
                        break
                if conf:
                    col.violation(f"{case}:{name}.{attr}[{k}]:obj", f"Variable object: {name}.{attr} differs from the declared expression", {"model_text": text, "detail": conf})
                else:
                    col.note_inconclusive(f"{case}:{name}.{attr}[{k}]:obj sat did not replay")
            elif r == "unknown":
                col.note_inconclusive(f"{case}:{name}.{attr}[{k}]:obj unknown")
        return
    # concrete attribute: compare numerically with the (numeral) reference
    try:
        if isinstance(val, ca.MX):
            val = ca.evalf(val)  # a constant expression CasADi did not fold (e.g. 10 / 4)
        arr = np.array(ca.DM(val)) if isinstance(val, (ca.MX, ca.DM)) else np.array(val, dtype=float)
    except Exception as e:
        col.note_inconclusive(f"{case}:{name}.{attr} non-numeric object attribute {type(val).__name__}")
        return
    flat = list(arr.flatten(order="F")) if arr.ndim > 0 else [float(arr)]
    if len(flat) == 1 and len(want_terms) > 1:
        flat = flat * len(want_terms)
    if len(flat) != len(want_terms):
        col.violation(f"{case}:{name}.{attr}:obj-shape", f"Variable {name}.{attr} has {len(flat)} elements, expected {len(want_terms)}", {"model_text": text})
        return
    for k, (g, w) in enumerate(zip(flat, want_terms)):
        try:
            wv = equiv.z3eval(w, {"__nan__": float("nan"), "__inf__": float("inf")})
        except KeyError:
            col.violation(f"{case}:{name}.{attr}[{k}]:obj-const", f"Variable {name}.{attr} is the constant {g} but the declared expression depends on parameters", {"model_text": text})
            continue
        if not equiv.close(float(g), float(wv)):
            col.violation(f"{case}:{name}.{attr}[{k}]:obj", f"Variable object: {name}.{attr} = {g}, declared {wv}", {"model_text": text})
    # python types of literal attributes (Integer stays int, Real literal becomes float)
    if not is_default and attr != "fixed" and not isinstance(val, (ca.MX, ca.DM, list, np.ndarray)) and ptype in (int, float):
        if type(val) is not ptype:
            col.violation(f"{case}:{name}.{attr}:type", f"{name}.{attr} is {type(val).__name__}, variable type is {ptype.__name__}", {"model_text": text})
    if is_default and attr == "start" and not (val == 0):
        col.violation(f"{case}:{name}.start:default", f"default start is {val!r}", {"model_text": text})


def work(item):
    case, text = item
    col = Collector()
    try:
        try:
            pipeline.real_generate(text, "M")
        except Exception as e:
            # every member of the family uses only attribute forms named in C13
            col.violation(f"{case}:raises:{type(e).__name__}", f"generate() raises {type(e).__name__}: {str(e)[:100]}",
                          {"model_text": text})
            col.bump("programs")
            return col
        check_model(col, text, case)
        col.bump("programs")
        col.sample({"model": case, "text": text}, 2)
    except EncodingGap as g:
        col.append("encoding_gaps", f"{case}: {g}")
    except Exception:
        col.harness_error(f"{case}: " + traceback.format_exc()[-1500:])
    return col


def main():
    args = std_args(PROP)
    rep = Report(PROP, args.tier, "translation_validation", args.seed)
    items = [(f"scalar{i}", scalar_model(i)) for i in range(len(EXPRS))]
    items += [(f"typed{i}", typed_model(i)) for i in range(5)]
    items += [(f"array{i}", array_model(i)) for i in range(len(AEXPRS))]
    items += [("array-literal-with-parameter-refs", ARRAY_REFS)]
    for col in run_parallel(work, items, args.jobs):
        rep.merge(col)
    # canary: an attribute compared with the wrong expression must be sat
    c = Collector()
    txt = scalar_model(0).replace("start = 3", "start = p * q")
    m = pipeline.real_generate(txt, "M")
    flat = pipeline.flat_reference(scalar_model(0).replace("start = 3", "start = p + q"), "M")
    try:
        import props.c13 as me
        model = m
        ref = Ref(flat, "M")
        pn = [nm for s in model._symbols(model.parameters) for nm in modelio.sym_elem_names(s)]
        _, zo, div = sx2z3(model.variable_metadata_function, [pn], ref.div)
        g = zo[0]["dense"][3 * 1 + 0]
        w = ref.ev(flat.classes["M"].symbols["x"].start)
        r, _ = equiv.check(c, [g != w])
        rep.coverage["canary_detected"] = (r == "sat")
        if r != "sat":
            rep.harness_error("canary: wrong attribute expression not detected")
    except Exception:
        rep.harness_error("canary failed: " + traceback.format_exc()[-500:])
    cov = rep.coverage
    cov["disagreements_checked"] = rep.queries.get("sat", 0)
    cov["functions_encoded"] = ["Generator._ast_symbols_to_variables (via generate)", "Model.variable_metadata_function (SX DAG -> z3, incl. affine rebuild)"]
    cov["bounds"] = "17 attribute expressions (literal, affine, non-affine) rotated over value/start/min/max/nominal of state/algebraic/input/parameter; arrays of 3 and 2x2; all parameter values unbounded reals"
    rep.assumptions += ["real arithmetic; sin/pow uninterpreted; divisors non-zero", "NaN and inf defaults are opaque constants shared by both sides"]
    return rep.finish()


if __name__ == "__main__":
    sys.exit(main())
