"""C13 - variable metadata reports the declared attributes (Engine B).

Real code: generate() -> Generator._ast_symbols_to_variables (coercions) -> Variable attributes,
Model.simplify() (the option-dependent rewrites of the metadata: expand_vectors, resolve/replace
parameter values, replace parameter/constant expressions and values), Model.variable_metadata_function
(including the affine rebuild A*p+b) and api.transfer_model / save_model / load_model (the Variable
objects and the pickled metadata function of a model served from the cache).  For each enumerated
(model, option set, observation point) the metadata Function and every symbolic Variable attribute are
translated to z3 and proved equal, for ALL parameter values, to the reference meaning of the declared
attribute expression; defaults and Python types are compared concretely.

Reference meaning: for flat single-class models ast2z3 of the flat symbol's attribute expression; for
hierarchical models (modifications written in an enclosing scope whose parameter names are shadowed
inside the component) the expected flat attributes come from the independent reference instantiator
vk/ref/flatten_ref.py, so a flattening defect cannot hide on both sides.

Options that inline parameter values: the claim is then made for every parameter vector that is consistent
with the declarations (z3 assumption `parameter == declared value expression` for the parameters that have
one); parameters WITHOUT a declared value stay unconstrained.
"""
import itertools
import logging
import os
import re
import shutil
import sys
import tempfile
import traceback

import casadi as ca
import numpy as np
import z3

from vk.flatcmp import zexpr
from vk.ref.flatten_ref import Cls, Comp, Lib
from vk.report import Collector, EncodingGap, Report, run_parallel, std_args
from vk.smt import equiv, modelio, ops, pipeline
from vk.smt.ast2z3 import Ref, flat_colmajor, shape_of
from vk.smt.sx2z3 import sx2z3
from pymoca import ast

PROP = "C13"
ATTRS = ("value", "min", "max", "start", "fixed", "nominal")  # order of CASADI_ATTRIBUTES
DEFAULTS = {"value": float("nan"), "start": 0, "min": float("-inf"), "max": float("inf"), "nominal": 0, "fixed": False}

EXPRS = ["3", "2.5", "-4", "p", "-q", "2 * p + q", "p - 3 * q + 1", "p * q", "p / q", "max(p, q)", "p ^ 2",
         "if p > q then p else q", "sin(p)", "(p + q) * (p - q)", "min(p, 2) + abs(q)", "p * 2 / 4 - q", "1 / p"]
# the same list without uninterpreted functions: used when an option inlines parameter VALUES (sin(2) would be a
# float on one side and an uninterpreted application on the other)
EXPRS_ALG = [e if e != "sin(p)" else "p * p - q" for e in EXPRS]
AEXPRS = ["{1, 2, 3}", "p", "{1.5, -2, 3}", "2 * p + q", "{0, 0, 0}", "max(p, q)", "p * q", "-1", "{4, 5, 6}", "p / q"]

# ------------------------------------------------------------------------------------------ option sets
# name -> (compiler options, which parameters the claim pins to their declared value)
#   pin "none":   no parameter is inlined, the claim is for all parameter vectors
#   pin "exprs":  parameters whose declared value is an expression of other parameters are eliminated
#   pin "valued": every parameter with a declared value may be inlined
OPTSETS = {
    "plain": ({}, "none"),
    "mx": ({"expand_mx": True}, "none"),
    "ev": ({"expand_vectors": True}, "none"),
    "ev+mx": ({"expand_vectors": True, "expand_mx": True}, "none"),
    "rpv": ({"resolve_parameter_values": True}, "valued"),
    "rpv+ev": ({"resolve_parameter_values": True, "expand_vectors": True}, "valued"),
    "rpv+mx": ({"resolve_parameter_values": True, "expand_mx": True}, "valued"),
    "replv": ({"replace_parameter_values": True}, "valued"),
    "replv+ev": ({"replace_parameter_values": True, "expand_vectors": True}, "valued"),
    "replv+ev+mx": ({"replace_parameter_values": True, "expand_vectors": True, "expand_mx": True}, "valued"),
    "rpe": ({"replace_parameter_expressions": True}, "exprs"),
    "rpe+replv": ({"replace_parameter_expressions": True, "replace_parameter_values": True}, "valued"),
    "rpe+ev": ({"replace_parameter_expressions": True, "expand_vectors": True}, "exprs"),
    "rcv": ({"replace_constant_expressions": True, "replace_constant_values": True}, "none"),
    "rcv+ev": ({"replace_constant_expressions": True, "replace_constant_values": True, "expand_vectors": True}, "none"),
    "rcv+rpv": ({"replace_constant_expressions": True, "replace_constant_values": True, "resolve_parameter_values": True}, "valued"),
    "rcv+replv": ({"replace_constant_expressions": True, "replace_constant_values": True, "replace_parameter_values": True}, "valued"),
    "rcv+rpe": ({"replace_constant_expressions": True, "replace_constant_values": True, "replace_parameter_expressions": True}, "exprs"),
}


# ------------------------------------------------------------------------------------------ flat model texts
def scalar_model(i, exprs=EXPRS):
    e = lambda k: exprs[(i + k) % len(exprs)]
    return f"""model M
  parameter Real p = 2;
  parameter Real q = 3;
  parameter Real r = {e(5)};
  parameter Real s(min = {e(6)}, max = {e(7)}) = 1.5;
  constant Real k = 4;
  Real x(start = {e(0)}, min = {e(1)}, max = {e(2)}, nominal = {e(3)}, fixed = true);
  Real y(start = {e(4)}, max = {e(8)});
  Real z(min = {e(9)}, nominal = {e(10)});
  input Real u(min = {e(11)}, max = {e(12)}, fixed = {'true' if i % 2 else 'false'});
  Real w;
equation
  der(x) = -x + u;
  y = x; z = y; w = z;
end M;
"""


def typed_model(i):
    iv = [3, -2, 7, 0, 12][i % 5]
    return f"""model M
  parameter Integer np = {iv};
  parameter Real p = 2;
  parameter Boolean flag = {'true' if i % 2 else 'false'};
  Integer n(start = {iv}, min = {iv - 5}, max = {iv + 5});
  Integer m(start = np);
  Boolean b(start = {'false' if i % 2 else 'true'});
  Real x(start = {iv}, min = {iv - 1}, nominal = {abs(iv) + 1});
  Real y(start = {iv}.5);
  constant Integer kc = {iv + 1};
  parameter Integer ne = 2 * {abs(iv) + 1};
  constant Integer ke = {iv} - 4;
  Integer n2(start = 2 * {iv}, max = 10 * 100, min = -(4 + {abs(iv)}));
  Integer n3(start = sum({{1, {abs(iv)}}}));
  Real x2(start = 2 * {iv}, nominal = 10 / 4);
equation
  n = 1; m = 2; b = true; x = 1; y = 2; n2 = 3; n3 = 4; x2 = 5;
end M;
"""


def array_model(i):
    e = lambda k: AEXPRS[(i + k) % len(AEXPRS)]
    A = ["{{1, 2}, {3, 4}}", "p", "{{0.5, -1}, {2, 7}}", "p * q - 1"][i % 4]
    return f"""model M
  parameter Real p = 2;
  parameter Real q = 3;
  parameter Real pv[3] = {{1, 2, 3}};
  Real v[3](start = {e(0)}, min = {e(1)}, max = {e(2)});
  Real w[3](nominal = {e(3)}, start = {e(4)});
  Real A[2,2](start = {A}, min = p - q);
  input Real uu[2](max = {{5, 6}}, min = -p);
  Real t;
equation
  der(v) = -v;
  w = v; t = 1;
end M;
"""


ARRAY_REFS = """model M
  parameter Real p = 2;
  parameter Real q = 3;
  Real v[3](start = {p, 2 * q, p + q});
equation
  der(v) = -v;
end M;
"""

# arithmetic on a 2-D array literal (the 1-D forms `{1, 2, 3} + pv`, `p * {1, 2, 3}` are members of the families below)
MATRIX_LIT_ARITH = """model M
  parameter Real p = 2;
  parameter Real Q[2,2] = {{1, 2}, {3, 4}};
  Real A[2,2](max = Q + {{1, 2}, {3, 4}}, min = p * {{1, 2}, {3, 4}});
  Real t;
equation
  t = 1;
end M;
"""

# --- parameters WITHOUT a declared value, parameters whose value depends on them, Boolean / Integer parameters
NEXPRS = ["a", "b", "e + 1", "a / 2", "-c", "d", "f", "a * b", "e - d", "2 * a + b", "a * a", "max(a, b)", "c", "3",
          "g - f", "b * c"]


def nov_model(i, arrays=True):
    e = lambda k: NEXPRS[(i + k) % len(NEXPRS)]
    arr = f"  Real s[2](each max = {e(6)}, each min = {e(7)});\n  Real s3[3](max = av, each start = {e(11)});\n" if arrays else ""
    arr_eq = "  s = {1, 2}; s3 = {1, 2, 3};\n" if arrays else ""
    arr_par = "  parameter Real av[3];\n" if arrays else ""
    return f"""model M
  parameter Real a;
  parameter Real b = 0.5;
  parameter Real c = 2;
  parameter Real d = c * b;
  parameter Real e = 3 * a;
  parameter Real f = e + d;
  parameter Real g(min = {e(8)}, max = {e(9)});
  parameter Integer n;
  parameter Integer m = {4 + i % 3};
  parameter Boolean hold;
  parameter Boolean on = {'true' if i % 2 else 'false'};
{arr_par}  Real x(min = {e(0)}, max = {e(1)}, nominal = {e(2)}, start = {e(3)}, fixed = hold);
  Real y(max = {e(4)}, start = {e(5)}, fixed = on);
{arr}  Integer k(min = 1, max = n);
  Integer k2(max = m + n, start = m);
  input Real u(max = {e(10)}, fixed = {'hold' if i % 2 else 'on'});
  Real z(fixed = {'on' if i % 3 else 'hold'}, start = {e(12)});
equation
  der(x) = -x + u;
  der(z) = 1;
  y = x; k = 1; k2 = 2;
{arr_eq}end M;
"""


# --- vectors with vector-valued symbolic attributes, literal/parameter mixes, Integer arrays
VEXPRS = ["pv", "2 * pv", "pv + {1, 2, 3}", "{1, 2, 3} + pv", "p * {1, 2, 3}", "-pv", "pv - nv", "nv", "p * pv + nv", "pv / 2"]


def vec_model(i):
    e = lambda k: VEXPRS[(i + k) % len(VEXPRS)]
    return f"""model M
  parameter Real p = 2;
  parameter Real pv[3] = {{1.5, -2, 4}};
  parameter Real nv[3];
  parameter Integer iv[3] = {{1, 2, 3}};
  parameter Real sv[3](max = {e(5)}) = pv;
  Real v[3](start = {e(0)}, min = {e(1)}, max = {e(2)});
  Real w[3](nominal = {e(3)}, each max = p);
  Integer c[3](max = iv, min = {{0, -1, -2}});
  input Real uu[3](max = {e(4)});
equation
  der(v) = -v;
  w = v; c = {{1, 2, 3}};
end M;
"""


# --- matrices (both dimensions > 1, and the degenerate 1xn / nx1) with matrix-valued symbolic attributes
SHAPES = [(2, 3), (3, 2), (2, 2), (1, 3), (3, 1)]
MEXPRS = ["Q", "-2 * Q", "Q + R", "p * Q", "Q - p * R", "LIT", "p", "R / 2", "R", "transpose(T) - Q"]


def _lit(n, m, k=0, scale=1.0):
    rows = []
    for r in range(n):
        rows.append("{" + ", ".join(repr((1 + k + r * m + c) * scale) for c in range(m)) + "}")
    return "{" + ", ".join(rows) + "}"


def matrix_model(i):
    n, m = SHAPES[i % len(SHAPES)]
    e = lambda k: MEXPRS[(i + k) % len(MEXPRS)].replace("LIT", _lit(n, m, k, 0.5))
    qv = "{" + ", ".join(str(3 * c + 1) for c in range(m)) + "}"
    return f"""model M
  parameter Real p = 2;
  parameter Real Q[{n},{m}] = {_lit(n, m)};
  parameter Real R[{n},{m}];
  parameter Real T[{m},{n}];
  parameter Real qv[{m}] = {qv};
  parameter Real S[{n},{m}](min = {e(6)}) = Q;
  Real A[{n},{m}](max = {e(0)}, min = {e(1)}, start = {e(2)}, each nominal = p);
  Real B[{n},{m}](start = {e(3)}, max = {e(4)});
  input Real U[{n},{m}](min = {e(5)});
  Real z[{m}](max = qv, min = -p * qv);
  Real t(max = 3 * p + 1);
equation
  t = 1;
end M;
"""


def big_model(i):
    """Arrays with >= 10 elements: element names have two-digit subscripts."""
    n = 10 + i
    lit = "{" + ", ".join(str(3 * k - 7) for k in range(n)) + "}"
    return f"""model M
  parameter Real p = 2;
  parameter Real pv[{n}] = {lit};
  parameter Real nv[{n}];
  Real v[{n}](max = {['pv', 'nv', '2 * pv - nv'][i % 3]}, min = {lit}, each nominal = p);
  Real w[{n}](start = {['nv', 'p * pv', lit][i % 3]});
  Real M2[2,{n // 2 + 1}](each max = p + 1);
equation
  der(v) = -v;
end M;
"""


# --- constants in attribute expressions (only meaningful once constants are replaced: they are no Function input)
CEXPRS = ["kc", "kd", "p + kc", "kc * p", "-kd", "kc / 2", "ki", "p - kd", "2", "kd - kc"]


def const_model(i):
    e = lambda k: CEXPRS[(i + k) % len(CEXPRS)]
    return f"""model M
  constant Real kc = 4;
  constant Real kd = kc * 2 + 1;
  constant Integer ki = {3 + i % 2};
  parameter Real p = 2;
  parameter Real r(max = {e(6)}) = kc + p;
  Real x(min = {e(0)}, max = {e(1)}, start = {e(2)}, nominal = {e(3)});
  Integer n(max = ki, start = ki - 1);
  Real v[2](each max = {e(4)}, each min = kd);
  input Real u(min = {e(5)});
equation
  der(x) = -x + u; n = 1; v = {{1, 2}};
end M;
"""


# ------------------------------------------------------------------------------------------ hierarchical models
V = lambda p: ("v", p)
N = lambda x: ("n", x)
HATTRS = ["max", "start", "nominal", "min"]


def hexpr(j, a="k", b="g"):
    """Modification expressions over two names of the WRITING scope (a is shadowed inside the component)."""
    return [V(a), ("+", ("*", N(3), V(a)), N(1)), ("*", V(a), V(b)), ("neg", V(a)), ("-", V(a), V(b)),
            ("+", V(b), ("*", N(2), V(a)))][j % 6]


def hier_lib(i, dotted, top):
    """Tank (parameters k, h) used in Plant (parameters k, g) used in Site (parameters k, h, g): every modification is
    written one or two levels above the variable it modifies and mentions names that also exist further in."""
    a0, a1, a2 = HATTRS[i % 4], HATTRS[(i + 1) % 4], HATTRS[(i + 2) % 4]
    tank = Cls("Tank", comps=[
        Comp("k", "Real", ["parameter"], value=N(2)),
        Comp("h", "Real", ["parameter"], value=N(1), mods={"max": ("*", V("k"), N(3))}),
        Comp("x", "Real", mods={"min": ("neg", V("h")), "max": N(10)}),
        Comp("y", "Real", mods={"nominal": N(4), "start": V("k")}),
        Comp("c", "Integer", mods={"max": N(7)}),
    ], eqs=[(("der", V("x")), ("neg", V("x"))), (V("y"), N(2)), (V("c"), N(1))])
    a_mods = {"x": {a0: hexpr(i), a1: V("g")}, "y": {a2: hexpr(i + 1)}}
    b_mods = {"k": {"value": N(7)}, "x": {a0: hexpr(i + 2)}}
    if i % 3 == 0:   # the attribute of the component's OWN parameter k, written with the enclosing k
        a_mods["k"] = {"max": ("+", V("k"), N(1))}
    if i % 3 == 1:   # a parameter value given by an enclosing expression, used by an inner attribute (x.min = -h)
        a_mods["h"] = {"value": ("*", N(2), V("k"))}
    if i % 3 == 2:
        b_mods["y"] = {"fixed": N(True), "start": hexpr(i + 3)}
    plant = Cls("Plant", comps=[
        Comp("k", "Real", ["parameter"], value=N(5)),
        Comp("g", "Real", ["parameter"], value=None if i % 2 else N(3)),
        Comp("a", "Tank", mods=a_mods),
        Comp("b", "Tank", mods=b_mods),
        Comp("w", "Real", mods={"max": V("k"), a1: hexpr(i + 4)}),
    ], eqs=[(V("w"), N(1))])
    p1_mods = {"a": {"x": {a2: hexpr(i + 1, "k", "h")}}, "k": {"value": N(6)}}
    if i % 2:
        p1_mods["b"] = {"y": {a0: hexpr(i, "h", "g")}, "h": {"min": V("h")}}
    site = Cls("Site", comps=[
        Comp("k", "Real", ["parameter"], value=N(9)),
        Comp("h", "Real", ["parameter"], value=N(8)),
        Comp("g", "Real", ["parameter"], value=N(-1)),
        Comp("p1", "Plant", mods=p1_mods),
        Comp("p2", "Plant", mods={"g": {"value": ("+", V("k"), V("h"))}}),
    ])
    for c in (tank, plant, site):
        c.dotted = dotted
    return Lib([tank, plant, site]), top


# ------------------------------------------------------------------------------------------ references
class FlatRef:
    """Reference meaning of a flat single-class model: ast2z3 of a separate, fresh flatten."""

    def __init__(self, text, cls):
        flat = pipeline.flat_reference(text, cls)
        self.fc = flat.classes[cls]
        self.ref = Ref(flat, cls)
        self.div = self.ref.div

    def has(self, name):
        return name in self.fc.symbols

    def dims(self, name):
        return tuple(self.ref.dims[name])

    def type_name(self, name):
        return self.fc.symbols[name].type.name

    def terms(self, name, attr):
        """-> (column-major list of z3 terms, one per element; is_default)"""
        sym = self.fc.symbols[name]
        numel = int(np.prod(self.dims(name))) if self.dims(name) else 1
        return ref_attr_terms(self.ref, sym, attr, numel, None)

    def pins(self, policy):
        """Assumptions `parameter element == declared value` (constants always: that is their meaning)."""
        out = []
        for name, sym in self.fc.symbols.items():
            is_par, is_const = "parameter" in sym.prefixes, "constant" in sym.prefixes
            if not (is_par or is_const):
                continue
            vals, is_default = self.terms(name, "value")
            if is_default:
                continue
            if is_par:
                if policy == "none":
                    continue
                if policy == "exprs" and not any(equiv.free_consts(v) for v in vals):
                    continue
            elems = flat_colmajor(self.ref.env[name]) if self.dims(name) else [self.ref.env[name]]
            out += [el == v for el, v in zip(elems, vals)]
        return out


class LibRef:
    """Reference meaning of a hierarchical model: the independent instantiator's expected flat attributes."""

    def __init__(self, lib, cls):
        self.vars, _ = lib.flatten(cls)
        self.div = ops.Divisors()

    def has(self, name):
        return name in self.vars

    def dims(self, name):
        return tuple(self.vars[name]["dims"])

    def type_name(self, name):
        return self.vars[name]["type"]

    def terms(self, name, attr):
        e = self.vars[name]["attrs"].get(attr)
        numel = int(np.prod(self.dims(name))) if self.dims(name) else 1
        if e is None or (attr == "fixed" and e == ("n", False)):
            return [ops.const(DEFAULTS[attr])] * numel, True
        return [zexpr(e)] * numel, False

    def pins(self, policy):
        out = []
        for name, v in self.vars.items():
            e = v["attrs"].get("value")
            if e is None or "parameter" not in v["prefixes"] or policy == "none":
                continue
            t = zexpr(e)
            if policy == "exprs" and not equiv.free_consts(t):
                continue
            out.append(z3.Real(name) == t)
        return out


def ref_attr_terms(ref, sym, attr, numel, dims):
    node = getattr(sym, attr)
    if isinstance(node, ast.Primary) and node.value is None or (attr == "fixed" and isinstance(node, ast.Primary) and node.value is False):
        return [ops.const(DEFAULTS[attr])] * numel, True
    v = ref.ev(node)
    if isinstance(v, list):
        fl = flat_colmajor(v) if len(shape_of(v)) <= 2 else None
        if fl is None or len(fl) != numel:
            raise EncodingGap(f"attribute {attr} of {sym.name}: shape {shape_of(v)} for {numel} elements")
        return fl, False
    return [v] * numel, False


_ELEM = re.compile(r"^(.*)\[([0-9,]+)\]$")


def locate(R, name):
    """Model variable name -> (declared name, column-major element index or None for the whole variable)."""
    if R.has(name):
        return name, None
    m = _ELEM.match(name)
    if m and R.has(m.group(1)):
        base, idx = m.group(1), [int(s) - 1 for s in m.group(2).split(",")]
        dims = R.dims(base)
        if len(idx) != len(dims) or any(not 0 <= k < d for k, d in zip(idx, dims)):
            return None, None
        if len(dims) == 1:
            return base, idx[0]
        if len(dims) == 2:
            return base, idx[0] + idx[1] * dims[0]
    return None, None


# ------------------------------------------------------------------------------------------ the comparison
def check_model(col, model, R, case, text, pins=(), extra=None):
    """model: the object the real pipeline produced (fresh Model or CachedModel); R: FlatRef / LibRef."""
    rp = dict({"model_text": text}, **(extra or {}))
    pnames = [nm for s in model._symbols(model.parameters) for nm in modelio.sym_elem_names(s)]
    try:
        f = model.variable_metadata_function
    except Exception as e:
        col.violation(f"{case}:metadata-raises:{type(e).__name__}", f"variable_metadata_function raises {type(e).__name__}: {_first_line(e)}", rp)
        return
    _, zout, div = sx2z3(f, [pnames], R.div)
    groups = [model.states, model.alg_states, model.inputs, model.parameters, model.constants]
    if len(zout) != len(groups):
        col.violation(case + ":n_out", "metadata function has wrong number of outputs", rp)
        return
    pins = list(pins)
    seen = set()
    for gi, (group, out) in enumerate(zip(groups, zout)):
        rows = sum(v.symbol.numel() for v in group)
        if out["shape"] != (rows, 6) and not (rows == 0):
            col.violation(f"{case}:g{gi}:shape", f"metadata output {gi} has shape {out['shape']}, expected {(rows, 6)}", rp)
            continue
        r0 = 0
        for v in group:
            name = v.symbol.name()
            n = v.symbol.numel()
            base, elem = locate(R, name)
            if base is None:
                col.violation(f"{case}:{name}:undeclared", f"model variable {name} corresponds to no declared variable (element)", rp)
                r0 += n
                continue
            seen.add((base, elem))
            # python type
            want = {"Real": float, "Integer": int, "Boolean": bool}.get(R.type_name(base), float)
            if v.python_type is not want:
                col.violation(f"{case}:{name}:python_type", f"{name}: python_type {v.python_type.__name__}, declared {R.type_name(base)}", rp)
            for ci, attr in enumerate(ATTRS):
                want_terms, is_default = R.terms(base, attr)
                if elem is not None:
                    want_terms = [want_terms[elem]]
                if len(want_terms) != n:
                    col.violation(f"{case}:{name}:numel", f"{name} has {n} elements, declared {len(want_terms)}", rp)
                    break
                got_terms = [out["dense"][ci * rows + r0 + k] for k in range(n)]
                assume = div.nonzero() + pins
                for k, (g, w) in enumerate(zip(got_terms, want_terms)):
                    col.bump("attribute_elements")
                    if g.get_id() == w.get_id():
                        col.count("unsat")
                    else:
                        r, m = decide(col, assume, g, w, bool(pins))
                        if r == "sat":
                            pt = equiv.point_from_model(m, [g, w] + pins)
                            conf = replay_meta(f, pnames, gi, ci * rows + r0 + k, w, pt, perturb=not pins)
                            if conf:
                                col.violation(f"{case}:{name}.{attr}[{k}]", f"metadata function: {name}.{attr} differs from the declared expression", dict(rp, detail=conf))
                            else:
                                col.note_inconclusive(f"{case}:{name}.{attr}[{k}] sat did not replay")
                        elif r == "unknown":
                            col.note_inconclusive(f"{case}:{name}.{attr}[{k}] unknown")
                # the attribute on the Variable object itself
                val = getattr(v, attr)
                check_object_attr(col, model, case, rp, name, attr, val, want_terms, is_default, pnames, div, want, pins, elem is not None)
            r0 += n
    return seen


def decide(col, assume, g, w, inlined):
    """z3: exists a parameter vector (satisfying assume) where g != w?  When parameter values were inlined, CasADi has
    evaluated sub-expressions in floating point (2/3 is a double on one side, a rational on the other): a numeral g
    that differs from w is then re-examined with the replay tolerance before it counts as a disagreement."""
    r, m = equiv.check(col, assume + [g != w])
    if r == "sat" and inlined:
        gs = z3.simplify(g)
        if z3.is_rational_value(gs):
            col.bump("inlined_float_rechecks")
            tol = 1e-9 * (1 + abs(float(gs.as_fraction())))
            r, m = equiv.check(col, assume + [z3.Or(w - g > tol, g - w > tol)])
    return r, m


def replay_meta(f, pnames, gi, idx, wterm, pt, perturb=True):
    for p in (equiv.perturbations(pt, 0) if perturb else [dict(pt)]):
        try:
            got = modelio.eval_function(f, [pnames], p)[gi][idx]
            want = equiv.z3eval(wterm, pipeline._Default(p))
        except Exception:
            continue
        if not equiv.close(got, want):
            return {"point": p, "impl": got, "ref": want}
    return None


def check_object_attr(col, model, case, rp, name, attr, val, want_terms, is_default, pnames, div, ptype, pins=(), element=False):
    psyms = model._symbols(model.parameters)
    pins = list(pins)
    if val is None:
        col.violation(f"{case}:{name}.{attr}:obj-none", f"Variable {name}.{attr} is None instead of the declared value", rp)
        return
    if isinstance(val, ca.MX) and not val.is_constant():
        try:
            fa = ca.Function("a", [ca.veccat(*psyms)], [val], {"allow_free": False})
        except RuntimeError as e:
            col.violation(f"{case}:{name}.{attr}:obj-free", f"Variable {name}.{attr} = {str(val)[:60]} is not a function of the model's parameters: {str(e)[-120:]}", rp)
            return
        _, zo, _ = sx2z3(fa, [pnames], div)
        got = zo[0]["dense"]
        if len(got) == 1 and len(want_terms) > 1:
            got = got * len(want_terms)
        if len(got) != len(want_terms):
            col.violation(f"{case}:{name}.{attr}:obj-shape", f"Variable {name}.{attr} has {len(got)} elements, expected {len(want_terms)}", rp)
            return
        for k, (g, w) in enumerate(zip(got, want_terms)):
            if g.get_id() == w.get_id():
                col.count("unsat")
                continue
            r, m = decide(col, div.nonzero() + pins, g, w, bool(pins))
            if r == "sat":
                pt = equiv.point_from_model(m, [g, w] + pins)
                conf = None
                for p in (equiv.perturbations(pt, 0) if not pins else [dict(pt)]):
                    try:
                        gv = modelio.eval_function(fa, [pnames], p)[0]
                        gv = gv[k] if len(gv) > 1 else gv[0]
                        wv = equiv.z3eval(w, pipeline._Default(p))
                    except Exception:
                        continue
                    if not equiv.close(gv, wv):
                        conf = {"point": p, "impl": gv, "ref": wv}
                        break
                if conf:
                    col.violation(f"{case}:{name}.{attr}[{k}]:obj", f"Variable object: {name}.{attr} differs from the declared expression", dict(rp, detail=conf))
                else:
                    col.note_inconclusive(f"{case}:{name}.{attr}[{k}]:obj sat did not replay")
            elif r == "unknown":
                col.note_inconclusive(f"{case}:{name}.{attr}[{k}]:obj unknown")
        return
    # concrete attribute: compare numerically with the reference (a numeral once the pinned parameters are inserted)
    try:
        if isinstance(val, ca.MX):
            val = ca.evalf(val)  # a constant expression CasADi did not fold (e.g. 10 / 4)
        arr = np.array(ca.DM(val)) if isinstance(val, (ca.MX, ca.DM)) else np.array(val, dtype=float)
    except Exception as e:
        col.note_inconclusive(f"{case}:{name}.{attr} non-numeric object attribute {type(val).__name__}")
        return
    flat = list(arr.flatten(order="F")) if arr.ndim > 0 else [float(arr)]
    if len(flat) == 1 and len(want_terms) > 1:
        flat = flat * len(want_terms)
    if len(flat) != len(want_terms):
        col.violation(f"{case}:{name}.{attr}:obj-shape", f"Variable {name}.{attr} has {len(flat)} elements, expected {len(want_terms)}", rp)
        return
    for k, (g, w) in enumerate(zip(flat, want_terms)):
        try:
            wv = equiv.z3eval(w, {"__nan__": float("nan"), "__inf__": float("inf")})
        except KeyError:
            if not pins:
                col.violation(f"{case}:{name}.{attr}[{k}]:obj-const", f"Variable {name}.{attr} is the constant {g} but the declared expression depends on parameters", rp)
                continue
            # parameters were inlined: the solver decides `for every consistent parameter vector: declared == constant`
            g = float(g)
            if g != g or g in (float("inf"), float("-inf")):
                col.violation(f"{case}:{name}.{attr}[{k}]:obj", f"Variable object: {name}.{attr} = {g} but the declared expression depends on parameters", rp)
                continue
            gt = ops.const(g)
            r, m = equiv.check(col, div.nonzero() + pins + [z3.Or(w - gt > 1e-9 * (1 + abs(g)), gt - w > 1e-9 * (1 + abs(g)))])
            if r == "sat":
                pt = equiv.point_from_model(m, [w] + pins)
                try:
                    wv = equiv.z3eval(w, pipeline._Default(pt))
                except Exception:
                    wv = None
                if wv is None or not equiv.close(g, float(wv)):
                    col.violation(f"{case}:{name}.{attr}[{k}]:obj", f"Variable object: {name}.{attr} = {g}, declared expression gives {wv}", dict(rp, detail={"point": pt}))
                else:
                    col.note_inconclusive(f"{case}:{name}.{attr}[{k}]:obj sat did not replay")
            elif r == "unknown":
                col.note_inconclusive(f"{case}:{name}.{attr}[{k}]:obj unknown")
            continue
        if not equiv.close(float(g), float(wv)):
            col.violation(f"{case}:{name}.{attr}[{k}]:obj", f"Variable object: {name}.{attr} = {g}, declared {wv}", rp)
    # python types of literal attributes (Integer stays int, Real literal becomes float)
    if not is_default and attr != "fixed" and not isinstance(val, (ca.MX, ca.DM, list, np.ndarray)) and ptype in (int, float):
        if element and ptype is float and type(val) is int:
            # an element of an expanded Real array keeps the int of an integer-valued array literal ({1, 2, 3}); the
            # property only demands that Integer and Boolean variables keep their types
            col.bump("real_element_attribute_left_int")
        elif type(val) is not ptype:
            col.violation(f"{case}:{name}.{attr}:type", f"{name}.{attr} is {type(val).__name__}, variable type is {ptype.__name__}", rp)
    if is_default and attr == "start" and not (val == 0):
        col.violation(f"{case}:{name}.start:default", f"default start is {val!r}", rp)


def check_complete(col, model, R, case, rp, seen, names, removed_ok):
    """Every declared variable (element) is reported by the model; parameters / constants may be absent only under an
    option that eliminates them."""
    for name in names:
        if any(b == name for b, _ in seen):
            el = {e for b, e in seen if b == name}
            numel = int(np.prod(R.dims(name))) if R.dims(name) else 1
            if None not in el and len(el) != numel:
                col.violation(f"{case}:{name}:elements", f"{name}: {len(el)} of {numel} elements present after expansion", rp)
        elif not removed_ok(name):
            col.violation(f"{case}:{name}:missing", f"declared variable {name} is not in the model", rp)


# ------------------------------------------------------------------------------------------ building the models
def build_text(kind, i):
    if kind == "scalar":
        return scalar_model(i)
    if kind == "scalar-alg":
        return scalar_model(i, EXPRS_ALG)
    if kind == "typed":
        return typed_model(i)
    if kind == "array":
        return array_model(i)
    if kind == "array-refs":
        return ARRAY_REFS
    if kind == "matrix-lit":
        return MATRIX_LIT_ARITH
    if kind == "nov":
        return nov_model(i, True)
    if kind == "nov-scalar":
        return nov_model(i, False)
    if kind == "matrix":
        return matrix_model(i)
    if kind == "vec":
        return vec_model(i)
    if kind == "big":
        return big_model(i)
    if kind == "const":
        return const_model(i)
    raise KeyError(kind)


def compile_cached(text, cls, options):
    """transfer_model twice on a scratch folder: (freshly compiled model that wrote the cache, model served from it)."""
    from pymoca.backends.casadi import api
    d = tempfile.mkdtemp(prefix="verif_c13_")
    try:
        with open(os.path.join(d, cls + ".mo"), "w") as fh:
            fh.write(text)
        o = dict(options, cache=True)
        first = api.transfer_model(d, cls, dict(o))
        second = api.transfer_model(d, cls, dict(o))
        return first, second, isinstance(second, api.CachedModel)
    finally:
        shutil.rmtree(d, ignore_errors=True)


def _first_line(e):
    lines = [l.strip() for l in str(e).splitlines() if l.strip()]
    if not lines:
        return ""
    # CasADi errors: the first line names the call, the last one the reason
    return (lines[0] if len(lines) == 1 else lines[0][:100] + " ... " + lines[-1][:80])[:200]


def work(item):
    case, kind, i, optname, observe = item
    col = Collector()
    logging.getLogger("pymoca").setLevel(logging.ERROR)  # "Caching implies expanding to SX", "System is not balanced", ...
    try:
        options, policy = OPTSETS[optname]
        if kind.startswith("hier"):
            dotted, top = kind.split("-")[1] == "dotted", kind.split("-")[2]
            lib, cls = hier_lib(i, dotted, top)
            text = lib.text()
            R = LibRef(lib, cls)
        else:
            text, cls = build_text(kind, i), "M"
            R = None
        rp = {"model_text": text, "class": cls, "options": options, "observe": observe}
        models = []
        stage = "generate()"
        try:
            if observe == "fresh":
                m = pipeline.real_generate(text, cls, options)
                if optname != "plain":
                    stage = "simplify()"
                    m.simplify(dict(options))
                models.append(("", m))
            else:
                stage = "transfer_model()"
                first, second, served = compile_cached(text, cls, options)
                if not served:
                    col.violation(f"{case}:not-served", "second transfer_model(cache=True) did not return the cached model", rp)
                models += [(":compiled", first), (":cached", second)]
        except Exception as e:
            # every member of the family uses only attribute forms named in C13
            tag = "raises" if stage == "generate()" else stage[:-2] + "-raises"
            col.violation(f"{case}:{tag}:{type(e).__name__}", f"{stage} raises {type(e).__name__}: {_first_line(e)}", rp)
            col.bump("programs")
            return col
        if R is None:
            R = FlatRef(text, cls)
        pins = R.pins(policy)
        if pins:
            r, _ = equiv.check(col, pins)
            if r != "sat":
                col.harness_error(f"{case}: the declared parameter values are not jointly satisfiable ({r}): vacuous")
                return col
        names = list(R.fc.symbols) if isinstance(R, FlatRef) else list(R.vars)
        prefixes = (lambda nm: R.fc.symbols[nm].prefixes) if isinstance(R, FlatRef) else (lambda nm: R.vars[nm]["prefixes"])
        removable = set()
        if any(options.get(k) for k in ("replace_parameter_values", "replace_parameter_expressions")):
            removable.add("parameter")
        if any(options.get(k) for k in ("replace_constant_values", "replace_constant_expressions")):
            removable.add("constant")
        for tag, m in models:
            seen = check_model(col, m, R, case + tag, text, pins, rp)
            if seen is not None:
                check_complete(col, m, R, case + tag, rp, seen, names, lambda nm: bool(removable & set(prefixes(nm))))
        col.bump("programs")
        col.bump("programs_" + observe)
        col.sample({"model": case, "text": text, "options": options, "observe": observe}, 2)
    except EncodingGap as g:
        col.append("encoding_gaps", f"{case}: {g}")
    except Exception:
        col.harness_error(f"{case}: " + traceback.format_exc()[-1500:])
    return col


def rot(seq, i, n):
    """n members of seq starting at a position that rotates with i (quick tier: every option set is met by some model)."""
    return [seq[(i * n + k) % len(seq)] for k in range(min(n, len(seq)))]


def all_items(tier):
    thorough = tier == "thorough"
    items = []

    def add(kind, i, optname="plain", observe="fresh", label=None):
        base = label or f"{kind}{i}"
        case = base if (optname, observe) == ("plain", "fresh") else f"{base}|{optname}" + ("|cache" if observe == "cached" else "")
        items.append((case, kind, i, optname, observe))

    # the original families, unchanged case ids
    for i in range(len(EXPRS)):
        add("scalar", i)
    for i in range(5):
        add("typed", i)
    for i in range(len(AEXPRS)):
        add("array", i)
    add("array-refs", 0, label="array-literal-with-parameter-refs")
    add("matrix-lit", 0, label="matrix-literal-arithmetic")
    # option sets over the original families
    for i in range(len(EXPRS)):
        for o in (["mx"] if thorough or i % 4 == 0 else []):
            add("scalar", i, o)
        sets = ["rpv", "replv", "rpe", "rpe+replv", "rpv+mx"]
        for o in (sets if thorough else rot(sets, i, 2)):
            add("scalar-alg", i, o)
    for i in range(5):
        sets = ["rpv", "replv", "mx", "rcv", "rpe+replv"]
        for o in (sets if thorough else rot(sets, i, 2)):
            add("typed", i, o)
    for i in range(len(AEXPRS)):
        sets = ["ev", "ev+mx", "rpv+ev", "replv+ev", "rpe+ev", "rpv"]
        for o in (sets if thorough else rot(sets, i, 2)):
            add("array", i, o)
    # parameters without a declared value
    for i in range(len(NEXPRS)):
        sets = ["plain", "rpv", "rpv+ev", "replv", "rpe", "ev", "rpe+replv", "replv+ev", "rpv+mx", "ev+mx"]
        for o in (sets if thorough else ["rpv"] + rot(sets[2:], i, 2) + (["plain"] if i % 4 == 0 else [])):
            add("nov", i, o)
    # matrices with matrix-valued symbolic attributes
    for i in range(len(MEXPRS)):
        # replace_parameter_values only with expansion FIRST (ev+mx): on an unexpanded matrix parameter it raises, see
        # the dedicated item matrix-parameter-replace-values below
        sets = ["plain", "ev", "ev+mx", "rpv+ev", "replv+ev+mx", "rpe+ev", "rpv"]
        for o in (sets if thorough else ["ev"] + rot(sets[2:] + sets[:1], i, 1)):
            add("matrix", i, o)
    add("matrix", 2, "replv", label="matrix-parameter-replace-values")
    for i in range(len(VEXPRS)):
        sets = ["plain", "ev", "ev+mx", "rpv+ev", "replv+ev", "rpe+ev", "rpv", "replv"]
        for o in (sets if thorough else ["plain"] + rot(sets[1:], i, 2)):
            add("vec", i, o)
    for i in range(3 if not thorough else 6):
        for o in (["ev", "ev+mx", "plain", "rpv+ev"] if thorough else ["ev"]):
            add("big", i, o)
    # constants in attributes
    for i in range(len(CEXPRS)):
        sets = ["rcv", "rcv+ev", "rcv+rpv", "rcv+replv", "rcv+rpe"]
        for o in (sets if thorough else rot(sets, i, 2)):
            add("const", i, o)
    # hierarchical models with shadowed names, both spellings, two depths
    for i in range(12):
        for dotted, top in itertools.product((False, True), ("Plant", "Site")):
            if not thorough and top == "Site" and (i + dotted) % 2:
                continue
            kind = f"hier-{'dotted' if dotted else 'nested'}-{top}"
            sets = ["plain", "mx", "rpv", "replv", "rpe", "ev"]
            for o in (sets if thorough else ["plain"] + (rot(sets[1:], i + dotted, 1) if top == "Plant" else [])):
                add(kind, i, o, label=f"{kind}{i}")
    # second observation point: the model served from the cache (and the compile that wrote it).  Models with arrays
    # only together with expand_vectors (unexpanded arrays in the cache: C19's open finding).
    for i in range(len(NEXPRS)):
        sets = ["plain", "rpv", "replv", "rpe"]
        for o in (sets if thorough else rot(sets, i, 1)):
            add("nov-scalar", i, o, "cached")
        if thorough or i % 4 == 1:
            add("nov", i, "ev", "cached")
    for i in range(len(EXPRS)):
        if thorough or i % 3 == 0:
            add("scalar", i, "plain", "cached")
    for i in range(5):
        if thorough or i % 2 == 0:
            add("typed", i, "plain", "cached")
    for i in range(len(MEXPRS)):
        if thorough or i % 3 == 0:
            add("matrix", i, "ev", "cached")
    for i in range(len(AEXPRS)):
        if thorough or i % 4 == 0:
            add("array", i, "ev", "cached")
    for i in range(len(VEXPRS)):
        if thorough or i % 4 == 2:
            add("vec", i, "ev", "cached")
    for i in range(12):
        for dotted, top in itertools.product((False, True), ("Plant", "Site")):
            if thorough or (top == "Plant" and (i + dotted) % 3 == 0):
                kind = f"hier-{'dotted' if dotted else 'nested'}-{top}"
                add(kind, i, "plain" if i % 2 else "rpv", "cached", label=f"{kind}{i}")
    return items


def main():
    args = std_args(PROP)
    rep = Report(PROP, args.tier, "translation_validation", args.seed)
    items = all_items(args.tier)
    for col in run_parallel(work, items, args.jobs):
        rep.merge(col)
    # canary: an attribute compared with the wrong expression must be sat
    c = Collector()
    txt = scalar_model(0).replace("start = 3", "start = p * q")
    m = pipeline.real_generate(txt, "M")
    flat = pipeline.flat_reference(scalar_model(0).replace("start = 3", "start = p + q"), "M")
    try:
        model = m
        ref = Ref(flat, "M")
        pn = [nm for s in model._symbols(model.parameters) for nm in modelio.sym_elem_names(s)]
        _, zo, div = sx2z3(model.variable_metadata_function, [pn], ref.div)
        g = zo[0]["dense"][3 * 1 + 0]
        w = ref.ev(flat.classes["M"].symbols["x"].start)
        r, _ = equiv.check(c, [g != w])
        rep.coverage["canary_detected"] = (r == "sat")
        if r != "sat":
            rep.harness_error("canary: wrong attribute expression not detected")
        # second canary: a parameter pinned to its declared value must not make a wrong INLINED value pass
        R = FlatRef(nov_model(0), "M")
        pins = R.pins("valued")
        wt, _ = R.terms("y", "start")          # d = c * b = 1
        r2, _ = equiv.check(c, pins + [wt[0] != ops.const(2.0)])
        r3, _ = equiv.check(c, pins + [wt[0] != ops.const(1.0)])
        rep.coverage["canary_pinned_detected"] = (r2 == "sat" and r3 == "unsat")
        if not (r2 == "sat" and r3 == "unsat"):
            rep.harness_error(f"canary: pinned-parameter query gave {r2}/{r3}")
    except Exception:
        rep.harness_error("canary failed: " + traceback.format_exc()[-500:])
    cov = rep.coverage
    # a sat of the exact query on an inlined float constant is re-asked with the replay tolerance (decide()): those are
    # roundings of CasADi's own constant folding, not disagreements
    cov["disagreements_checked"] = rep.queries.get("sat", 0) - cov.get("inlined_float_rechecks", 0)
    cov["functions_encoded"] = ["Generator._ast_symbols_to_variables (via generate)", "Model.simplify (metadata rewrites of the option sets)",
                                "Model.variable_metadata_function (SX DAG -> z3, incl. affine rebuild)",
                                "api.transfer_model/save_model/load_model (Variable objects and metadata function of the cached model)"]
    cov["option_sets"] = sorted({it[3] for it in items})
    cov["bounds"] = (
        "17 attribute expressions (literal, affine, non-affine) rotated over value/start/min/max/nominal of state/algebraic/input/parameter; "
        "arrays of 3 and 2x2; vectors of 3 with vector-valued parameter expressions, literal/parameter mixes ({1,2,3} + pv, p * {1,2,3}) and Integer arrays; matrices 2x3/3x2/2x2/1x3/3x1 with matrix-valued parameter expressions (valued and unvalued parameter matrices); "
        "arrays of 10-15 elements; parameters without a declared value (Real/Integer/Boolean, arrays), parameter values that depend on them, "
        "symbolic Boolean `fixed`; constants in attributes (with constant replacement); 12 three-level hierarchies (Tank in Plant in Site) whose "
        "modifications are written 1-2 levels above in nested and dotted spelling with names shadowed inside the component (expected attributes "
        "from vk/ref/flatten_ref.py); crossed (rotating in quick, fully in thorough) with the option sets listed in option_sets via generate+simplify, "
        "and observed on the freshly compiled model, on the compile that writes the cache and on the CachedModel of a second transfer_model; "
        "all parameter values unbounded reals (under value-inlining options: all vectors consistent with the declared values)")
    rep.assumptions += ["real arithmetic; sin/pow uninterpreted; divisors non-zero",
                        "Python types: Integer/Boolean variables and scalar Real variables strictly; an element of an expanded Real array may keep the int of an integer-valued array literal (counted in real_element_attribute_left_int)",
                        "after value inlining a float constant is compared with the exact declared value up to the replay tolerance 1e-9 (CasADi folds 2/3 to a double)", "NaN and inf defaults are opaque constants shared by both sides",
                        "under resolve/replace_parameter_values and replace_parameter_expressions the eliminated parameters equal their declared value expressions",
                        "cached observation: models with unexpanded arrays are only cached together with expand_vectors (C19 open finding on array positions)"]
    return rep.finish()


if __name__ == "__main__":
    sys.exit(main())
