"""C10 - generated CasADi model classifies every variable exactly once (Engine A, CrossHair).

Symbolic (per shard): the subject variable's flow flag, variability and causality prefix.  Enumerated
(one shard each): its type, whether it is a top-level or a nested component variable, where der() is
applied to it, and whether it is declared before or after its neighbour.  Real code: tree.flatten,
annotate_states, Generator.exitClass / _ast_symbols_to_variables / get_derivative.

Because the harness writes the prefix list into the parsed template, a second, concrete stage pushes
every prefix spelling through the REAL parser as text and checks (a) that the parser produces exactly
the prefix list the harness uses and (b) the classification of that real text."""
import itertools
import re
import sys

from vk import chx
from vk.report import Report, std_args

PROP = "C10"
import os
HARNESS = os.path.join(os.path.dirname(os.path.abspath(__file__)), "h10.py")


def shards(tier):
    out = []
    for t in range(4):
        for p in (0, 1):
            ds = [0] if t != 0 else ([0, 1, 2, 3, 5, 6] if p == 0 else [0, 1, 2, 3, 4])
            for d in ds:
                for o in (0, 1):
                    out.append((t, p, d, o))
    return out


def text_stage(rep):
    """Every prefix spelling as real text through the real parser + generate."""
    import logging
    logging.disable(logging.CRITICAL)
    from props import h10
    from pymoca import parser
    from pymoca.backends.casadi import generator
    n = 0
    for t, p in ((0, 0), (0, 1), (3, 0), (1, 0)):
        for f, v, c in itertools.product((False, True), range(4), range(3)):
            for d in ((0, 1) if t == 0 else (0,)):
                if not h10.admissible(t, d, f, v, c):
                    continue
                words = (["flow"] if f else []) + ([h10.VARIABILITY[v]] if v else []) + ([h10.CAUSALITY[c]] if c else [])
                text = h10.model_text(t, p, d, 0, " ".join(words))
                n += 1
                case = f"text:type={h10.TYPES[t]},place={'top' if p == 0 else 'nested'},der={d},prefixes={'+'.join(words) or 'none'}"
                try:
                    tr = parser.parse(text, bypass_cache=True)
                    sym = tr.classes["M"].symbols["x"] if p == 0 else tr.classes["C"].symbols["w"]
                    parsed = list(sym.prefixes)
                    m = generator.generate(tr, "M", {})
                except Exception as e:
                    rep.violation(case + ":raises", f"parse/generate raised {type(e).__name__}: {str(e)[:120]}", {"model_text": text})
                    continue
                name, other, cat, is_out = h10.expected(t, p, d, 0, f, v, c)
                cats, ders, outs = h10.observe(m)
                where = [k for k in cats for x in cats[k] if x == name]
                ok = where == [cat] and outs == ([name] if is_out else []) and ders == ["der(" + s + ")" for s in cats["states"]]
                if not ok:
                    rep.violation(case, f"variable {name} declared '{' '.join(words)} {h10.TYPES[t]}' is classified {where or 'nowhere'} (outputs {outs}), "
                                  f"expected {cat}; parser produced prefixes {parsed}", {"model_text": text, "expected_category": cat, "got": where, "parsed_prefixes": parsed})
                elif parsed != words:
                    rep.harness_error(f"{case}: parser prefixes {parsed} differ from the harness's list {words} although the classification agrees")
    # array-sized variables, including size 0 (from a parameter): a variable that is in no category is in no output list
    for nsz, decl in itertools.product((0, 1, 2), ("output Real y[n];", "output Real y[n]; output Real y2;", "Real y[n]; output Real y2[n];", "input Real y[n];", "parameter Real y[n] = fill(1.0, n);")):
        text = f"model M\n  parameter Integer n = {nsz};\n  {decl}\n  Real z;\nequation\n  z = 1;\n" + \
               ("  y = fill(2.0, n);\n" if decl.startswith(("output Real y[n]", "Real y[n]")) else "") + \
               ("  y2 = 3;\n" if "output Real y2;" in decl else "") + ("  y2 = fill(4.0, n);\n" if "y2[n]" in decl else "") + "end M;\n"
        n += 1
        case = f"text:array[n={nsz},{decl}]"
        try:
            m = generator.generate(parser.parse(text, bypass_cache=True), "M", {})
        except Exception as e:
            rep.coverage["array_models_rejected"] = rep.coverage.get("array_models_rejected", 0) + 1
            continue
        cats, ders, outs = h10.observe(m)
        everywhere = [x for k in cats for x in cats[k]]
        for o in outs:
            if o not in cats["states"] + cats["alg_states"]:
                rep.violation(case + ":output-not-a-variable", f"outputs lists {o}, which is neither a state nor an algebraic variable of the model (categories: {cats})", {"model_text": text})
        for x in set(everywhere):
            if everywhere.count(x) != 1:
                rep.violation(case + ":duplicate", f"{x} appears {everywhere.count(x)} times in the category lists", {"model_text": text})
        want_out = [nm for nm in ("y", "y2") if re.search(rf"output Real {nm}\b", decl) and (nm in cats["states"] + cats["alg_states"])]
        if sorted(outs) != sorted(want_out):
            rep.violation(case + ":outputs", f"outputs = {outs}, expected {want_out}", {"model_text": text})
    # String constants / parameters: scalars, arrays, and scalars inside an array of components
    for decl, names in (('parameter String tag = "a";', ["tag"]), ('constant String tag = "a";', ["tag"]),
                        ('parameter String tags[2] = {"a", "b"};', ["tags"]), ('constant String tags[2] = {"a", "b"};', ["tags"]),
                        ('Tank row[2];', ["row.name", "row.kind"]), ('Tank one;', ["one.name", "one.kind"])):
        text = ('model Tank\n  parameter String name = "t";\n  constant String kind = "k";\n  parameter Real vol = 2;\n  Real lvl;\nequation\n  lvl = vol;\nend Tank;\n'
                f"model M\n  {decl}\n  Real z;\nequation\n  z = 1;\nend M;\n")
        n += 1
        case = f"text:string[{decl}]"
        try:
            m = generator.generate(parser.parse(text, bypass_cache=True), "M", {})
        except Exception as e:
            rep.coverage["string_models_rejected"] = rep.coverage.get("string_models_rejected", 0) + 1
            continue
        cats, ders, outs = h10.observe(m)
        for nm in names:
            where = [k for k in cats for x in cats[k] if x == nm]
            want = "string_constants" if ("constant String" in decl or nm.endswith(".kind")) else "string_parameters"
            if where != [want]:
                rep.violation(case + f":{nm}", f"String variable {nm} is classified {where or 'nowhere'}, expected [{want}]", {"model_text": text})
    rep.coverage["real_text_spellings_checked"] = n
    return n


def der_site_models():
    """(id, text, class, expected set of states) - where der() can be written and how many variables share it."""
    out = []
    # 1. every site a der() can be written at, for a top-level and a nested variable
    sites = {
        "equation": ("", "  der(x) = -x;\n", ""),
        "equation-expr": ("  Real z0;\n", "  z0 = 2 * der(x) + 1;\n  x = 3 * time;\n", ""),
        "initial-only": ("", "  x = 3 * time;\n", "  der(x) = 0;\n"),
        "binding": ("  Real v0 = der(x);\n", "  x = 3 * time;\n", ""),
        "binding-expr": ("  parameter Real k0 = 3;\n  output Real v0 = der(x) + k0;\n", "  x = 3 * time;\n", ""),
        "binding-before-decl": None,  # handled below (v0 declared before x)
    }
    for sid, parts in sites.items():
        if parts is None:
            text = "model M\n  Real v0 = der(x);\n  Real x;\n  Real z;\nequation\n  x = 3 * time;\n  z = 1;\nend M;\n"
        else:
            decl, eq, ieq = parts
            text = "model M\n  Real x;\n" + decl + "  Real z;\n" + ("initial equation\n" + ieq if ieq else "") + "equation\n" + eq + "  z = 1;\nend M;\n"
        out.append((f"site:{sid}:top", text, "M", {"x"}))
        # the same class as a component (once, twice) of an enclosing model
        out.append((f"site:{sid}:nested", text.replace("model M", "model C").replace("end M;", "end C;").replace("output Real", "Real")
                    + "model M\n  C c;\n  C d;\n  Real top;\nequation\n  top = 2;\nend M;\n", "M", {"c.x", "d.x"}))
    # 2. der() in a modification of a component binding, replacing a binding that had its own der()
    sub = "model Sub\n  Real s;\n  Real v = der(s);\nequation\n  s = 2 * time;\nend Sub;\n"
    out.append(("site:modifier", sub + "model M\n  Real q;\n  Sub b(v = der(q));\n  Sub a;\nequation\n  q = 1;\nend M;\n", "M", {"q", "a.s"}))
    out.append(("site:modifier-only", "model Sub\n  Real s;\n  Real v;\nequation\n  s = 2 * time;\nend Sub;\n"
                "model M\n  Real q;\n  Sub b(v = der(q));\nequation\n  q = 1;\nend M;\n", "M", {"q"}))
    # 3. several states: declaration order vs the order in which der() is first met (initial equations are walked first)
    import itertools as it
    for perm in it.permutations("abc"):
        for first_in_initial in (None, "c", "b"):
            eqs = "".join(f"  der({v}) = -{v};\n" for v in perm)
            ieq = f"initial equation\n  der({first_in_initial}) = 0;\n" if first_in_initial else ""
            text = "model M\n  Real a;\n  Real b;\n  Real c;\n" + ieq + "equation\n" + eqs + "end M;\n"
            out.append((f"order:{''.join(perm)}:{first_in_initial or '-'}", text, "M", {"a", "b", "c"}))
    # 4. arrays differentiated inside for-loops: one loop, two loops with the same / another index name, loop + plain use
    loops = {
        "one-loop": "  for i in 1:3 loop\n    der(x[i]) = -x[i];\n  end for;\n  y = {1, 2, 3};\n",
        "two-loops-same-index": "  for i in 1:3 loop\n    der(x[i]) = -x[i];\n  end for;\n  for i in 1:3 loop\n    y[i] = der(x[i]) + 1;\n  end for;\n",
        "two-loops-other-index": "  for i in 1:3 loop\n    der(x[i]) = -x[i];\n  end for;\n  for j in 1:3 loop\n    y[j] = der(x[j]) + 1;\n  end for;\n",
        "loop-then-whole": "  for i in 1:3 loop\n    der(x[i]) = -x[i];\n  end for;\n  y = der(x);\n",
        "whole-then-loop": "  der(x) = -x;\n  for i in 1:3 loop\n    y[i] = 2 * der(x[i]);\n  end for;\n",
        "loop-two-arrays": "  for i in 1:3 loop\n    der(x[i]) = -y[i];\n    der(y[i]) = x[i];\n  end for;\n",
    }
    for lid, eq in loops.items():
        text = "model M\n  Real x[3];\n  Real y[3];\nequation\n" + eq + "end M;\n"
        out.append((f"loop:{lid}", text, "M", {"x", "y"} if lid == "loop-two-arrays" else {"x"}))
    return out


def der_site_stage(rep, only=None):
    """Concrete structural stage: wherever der() is written, the variable is a state with exactly one derivative
    variable at the same position, and every symbol the equations use is in exactly one category."""
    import logging
    logging.disable(logging.CRITICAL)
    import casadi as ca
    from props import h10
    from pymoca import parser
    from pymoca.backends.casadi import generator
    n = 0
    for mid, text, cls, want_states in der_site_models():
        if only is not None and mid != only:
            continue
        n += 1
        case = "dersite:" + mid
        try:
            m = generator.generate(parser.parse(text, bypass_cache=True), cls, {})
        except Exception as e:
            rep.violation(case + ":raises", f"generate raised {type(e).__name__}: {str(e)[:120]}", {"model_text": text, "der_site": mid})
            continue
        cats, ders, outs = h10.observe(m)
        everywhere = [x for k in cats for x in cats[k]] + ders
        if set(cats["states"]) != want_states:
            rep.violation(case + ":states", f"states = {cats['states']}, expected {sorted(want_states)} (every variable der() is applied to, and only those)", {"model_text": text, "der_site": mid})
            continue
        if ders != ["der(" + x + ")" for x in cats["states"]]:
            rep.violation(case + ":der-order", f"der_states = {ders} is not the list of derivatives of states = {cats['states']} in the same order", {"model_text": text, "der_site": mid})
        for x in set(everywhere):
            if everywhere.count(x) != 1:
                rep.violation(case + ":duplicate", f"{x} appears {everywhere.count(x)} times in the category lists", {"model_text": text, "der_site": mid})
        for st in want_states:
            if st in cats["alg_states"]:
                rep.violation(case + ":also-algebraic", f"{st} is both a state and an algebraic variable", {"model_text": text, "der_site": mid})
        used = set()
        for e in list(m.equations) + list(m.initial_equations):
            used |= {v.name() for v in ca.symvar(e)}
        stray = sorted(used - set(everywhere) - {"time"})
        if stray:
            rep.violation(case + ":uncategorised-symbol", f"the model's equations use {stray}, which are in no category (a second derivative variable / a variable classified nowhere)", {"model_text": text, "der_site": mid})
        try:
            m.dae_residual_function
            m.initial_residual_function
        except Exception as e:
            rep.violation(case + ":residual", f"a residual function cannot be built: {str(e)[:150]}", {"model_text": text, "der_site": mid})
    rep.coverage["der_site_models_checked"] = n
    return n



def replay(path):
    import json
    import logging
    logging.disable(logging.CRITICAL)
    from props import h10
    from pymoca import parser
    from pymoca.backends.casadi import generator
    r = json.load(open(path))["replay"]
    if "model_text" in r and r.get("der_site"):
        rep = Report(PROP, "quick", "model_checking", 0)
        der_site_stage(rep, only=r["der_site"])
        print(rep.violations[:3])
        return 1 if rep.violations else 0
    if "model_text" in r:
        m = generator.generate(parser.parse(r["model_text"], bypass_cache=True), "M", {})
        cats, ders, outs = h10.observe(m)
        print(cats, ders, outs, "expected", r.get("expected_category"))
        name = "x" if "x" in str(cats) and " x" in r["model_text"] else "c.w"
        return 0 if [k for k in cats for x in cats[k] if x == name] == [r.get("expected_category")] else 1
    res = h10.run(*r["args"])
    print("harness returned", res)
    return 0 if res == 1 else 1


def main():
    a = std_args(PROP)
    if a.replay:
        return replay(a.replay)
    rep = Report(PROP, a.tier, "model_checking", a.seed)
    sh = shards(a.tier)
    spec = [("classify", f"t={t},p={p},d={d},o={o}") for t, p, d, o in sh]
    spec += [("reach_classify", "t=0,p=0,d=1,o=0")]
    ct = 240 if a.tier == "quick" else 900
    vs = chx.run(HARNESS, spec, jobs=a.jobs, cond_timeout=ct, path_timeout=60)
    reach = [v for v in vs if v.func.startswith("reach_")]
    vs = [v for v in vs if not v.func.startswith("reach_")]
    n = chx.summarize(rep, vs)
    for v in reach:
        rep.coverage["reachability_witness"] = v.kind == "counterexample"
        if v.kind != "counterexample":
            rep.harness_error(f"reachability twin did not produce a witness: {v.kind} {v.detail[:200]}")
    from props import h10
    for v in vs:
        if v.kind in ("counterexample", "exception"):
            argtxt = chx.call_args(v.detail) or ""
            toks = re.findall(r"True|False|-?\d+", argtxt)
            try:
                args = [(x == "True") if x in ("True", "False") else int(x) for x in toks]
                pins = dict(kv.split("=") for kv in v.pin.split(","))
                args[0:4] = [int(pins[k]) for k in ("t", "p", "d", "o")]
                res = h10.run(*args)
            except Exception as e:
                res = f"{type(e).__name__}: {e}"
                args = toks
            if res != 1:
                t, p, d, o, f, vv, c = args
                words = (["flow"] if f else []) + ([h10.VARIABILITY[vv]] if vv else []) + ([h10.CAUSALITY[c]] if c else [])
                rep.violation(f"flags:type={h10.TYPES[t]},place={'top' if p == 0 else 'nested'},der={d},order={o},prefixes={'+'.join(words) or 'none'}",
                              f"classification of the subject variable does not follow the stated precedence (harness returned {res})",
                              {"args": args, "model_text_without_prefixes": h10.model_text(t, p, d, o), "prefixes": words, "crosshair": v.detail})
            else:
                rep.harness_error(f"counterexample {v.func}[{v.pin}]({argtxt}) did not reproduce concretely")
    ntext = text_stage(rep)
    ntext += der_site_stage(rep)
    cov = rep.coverage
    cov["states"] = max(1, n["confirmed"])
    cov["transitions"] = max(1, len(vs))
    cov["traces_validated_against_impl"] = ntext
    cov["samples"] = [{"function": v.func, "pin": v.pin, "verdict": v.kind, "secs": round(v.secs, 1)} for v in vs][:10]
    cov["exhaustive"] = all(v.kind == "confirmed" for v in vs)
    cov["functions_encoded"] = ["tree.flatten, tree.annotate_states, casadi.generator.Generator.exitClass/_ast_symbols_to_variables/get_derivative (executed symbolically by CrossHair)"]
    cov["bounds"] = ("one subject variable + fixed neighbours; symbolic: flow flag x variability {none,discrete,parameter,constant} x causality {none,input,output}; "
                     "enumerated shards: type {Real,Integer,Boolean,String} x {top-level, nested component} x der usage {none, direct, inside an expression, "
                     "initial equation only, from the enclosing model, after a closed sub-expression inside der()} x declaration order; "
                     "concrete der-site stage (38 models): der() written in an equation / an expression / an initial equation only / a declaration binding (before or after the declaration) / "
                     "a component modification, top-level and in two instances of a class; 3 states x every order of first use x initial-equation first use; arrays differentiated in one or two "
                     "for-loops (same / other index name), loop + whole-array use, two arrays in one loop - states are exactly the differentiated variables, der_states[i] is der(states[i]), "
                     "every symbol the equations use is in exactly one category, both residual functions can be built")
    rep.assumptions += ["combinations Modelica forbids (der of non-Real / constant / parameter / discrete, String variables that are not constants or parameters) are excluded by precondition",
                        "declaration order is asserted between variables declared in the same class instance only",
                        "the prefix list is written into the parsed template; the real-text stage checks that the parser produces the same list for every spelling"]
    return rep.finish()


if __name__ == "__main__":
    sys.exit(main())
