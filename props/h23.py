"""CrossHair harness for C23: subscripts are symbolic integers flowing through the real
generate -> get_component -> get_indexed_symbol -> get_integer."""
import pickle

import casadi as ca

from pymoca import parser, tree
from pymoca.backends.casadi import generator
from vk import chstubs
from vk.chstubs import pin

chstubs.install_format_cut()
chstubs.install_casadi_realizers()
chstubs.silence(generator, tree)

PRIMES = [2.0, 3.0, 5.0, 7.0, 11.0, 13.0]


def _tpl(text):
    return pickle.dumps(parser.parse(text, bypass_cache=True))


class _Subst(tree.TreeListener):
    def __init__(self, m):
        super().__init__()
        self.m = m

    def exitPrimary(self, t):
        if type(t.value) is int and t.value in self.m:
            t.value = self.m[t.value]


def _inst(tpl, m):
    t = pickle.loads(tpl)
    tree.TreeWalker().walk(_Subst(m), t)
    return t


def _vec(n):
    return f"model M\n  Real x[{n}];\n  Real y;\nequation\n  y = x[7001];\nend M;\n"


T_VEC = {n: _tpl(_vec(n)) for n in (1, 2, 3)}
T_MAT = _tpl("model M\n  Real A[2,3];\n  Real y;\nequation\n  y = A[7001,7002];\nend M;\n")
T_SCAL = _tpl("model M\n  Real s;\n  Real y;\nequation\n  y = s[7001];\nend M;\n")
T_NEST = _tpl("model Q\n  Real w[3];\nend Q;\nmodel M\n  Q q[2];\n  Real y;\nequation\n  y = q[7001].w[7002];\nend M;\n")
T_SLICE = {n: _tpl(f"model M\n  Real x[{n}];\n  Real y;\nequation\n  y = sum(x[7001:7002]);\nend M;\n") for n in (1, 2, 3)}
T_SLICE3 = _tpl("model M\n  Real x[5];\n  Real y;\nequation\n  y = sum(x[7001:7003:7002]);\nend M;\n")
T_FOR = {n: _tpl(f"model M\n  Real x[{n}];\n  Real w[{n}];\nequation\n  for i in 7001:7002 loop\n    w[i] = x[i];\n  end for;\nend M;\n") for n in (2, 3)}
T_LHS = _tpl("model M\n  Real x[3];\n  Real y;\nequation\n  x[7001] = y;\nend M;\n")


def _concretize(v, lo, hi):
    for c in range(lo, hi + 1):
        if v == c:
            return c
    return v


def _residual(m, nx, extra=1, y=0.0):
    f = m.dae_residual_function
    vals = PRIMES[:nx] + [y] * extra
    r = f(0, [], [], vals, [], [], [])
    return [float(r[k]) for k in range(r.numel())]


def vec(n: int, i: int) -> int:
    """
    pre: n in (1, 2, 3) and pin(n=n)
    post: _ == 1
    """
    t = _inst(T_VEC[n], {7001: i})
    try:
        m = generator.generate(t, "M", {})
    except Exception:
        return 1 if (i < 1 or i > n) else 0
    if i < 1 or i > n:
        return 0
    r = _residual(m, n)
    return 1 if r == [-PRIMES[i - 1]] else 0


def mat(i: int, j: int) -> int:
    """
    post: _ == 1
    """
    t = _inst(T_MAT, {7001: i, 7002: j})
    ok = 1 <= i <= 2 and 1 <= j <= 3
    try:
        m = generator.generate(t, "M", {})
    except Exception:
        return 0 if ok else 1
    if not ok:
        return 0
    f = m.dae_residual_function
    # A elements column-major: A[r,c] at c*2+r ; value = PRIMES index
    r = f(0, [], [], PRIMES[:6] + [0.0], [], [], [])
    return 1 if float(r[0]) == -PRIMES[(j - 1) * 2 + (i - 1)] else 0


def scalar(i: int) -> int:
    """
    post: _ == 1
    """
    t = _inst(T_SCAL, {7001: i})
    try:
        generator.generate(t, "M", {})
    except Exception:
        return 1
    return 0


def nested(i: int, j: int) -> int:
    """
    post: _ == 1
    """
    t = _inst(T_NEST, {7001: i, 7002: j})
    ok = 1 <= i <= 2 and 1 <= j <= 3
    try:
        m = generator.generate(t, "M", {})
    except Exception:
        return 0 if ok else 1
    if not ok:
        return 0
    f = m.dae_residual_function
    r = f(0, [], [], PRIMES[:6] + [0.0], [], [], [])
    # q.w is 2x3: element (i,j) column-major
    return 1 if float(r[0]) == -PRIMES[(j - 1) * 2 + (i - 1)] else 0


def slice2(n: int, a: int, b: int) -> int:
    """
    pre: n in (1, 2, 3) and pin(n=n, a=a) and -3 <= a <= n + 3 and -3 <= b <= n + 3
    post: _ == 1
    """
    t = _inst(T_SLICE[n], {7001: a, 7002: b})
    empty = b < a
    outside = (not empty) and (a < 1 or b > n)
    try:
        m = generator.generate(t, "M", {})
    except Exception:
        return 1 if (outside or empty) else 0
    if outside:
        return 0
    if empty:
        # a:b with b < a is Modelica's empty selection; sum({}) over it is C11's business (on a size-1
        # array CasADi's sum of a 0x1 matrix makes the whole equation vanish) - only "no element selected"
        # is demanded here
        f = m.dae_residual_function
        if f.n_out() == 0 or f.numel_out(0) == 0:
            return 1
    r = _residual(m, n, y=1000.0)
    exp = 0.0
    k = a
    while k <= b:  # empty range: y = sum({}) = 0
        exp += PRIMES[k - 1]
        k += 1
    return 1 if r == [1000.0 - exp] else 0


def slice3(a: int, s: int, b: int) -> int:
    """
    pre: -2 <= a <= 7 and -2 <= b <= 7 and 1 <= s <= 3
    post: _ == 1
    """
    t = _inst(T_SLICE3, {7001: a, 7002: b, 7003: s})
    sel = []
    k = a
    while k <= b:
        sel.append(k)
        k += s
    empty = len(sel) == 0
    outside = any(k < 1 or k > 5 for k in sel)
    try:
        m = generator.generate(t, "M", {})
    except Exception:
        return 1 if (outside or empty) else 0
    if outside:
        return 0
    r = _residual(m, 5, y=1000.0)
    exp = 0.0
    for k in sel:
        exp += PRIMES[k - 1]
    return 1 if r == [1000.0 - exp] else 0


def forloop(n: int, a: int, b: int) -> int:
    """
    pre: n in (2, 3) and pin(n=n, a=a) and -2 <= a <= n + 2 and -2 <= b <= n + 2
    post: _ == 1
    """
    a = _concretize(a, -2, n + 2)  # numpy.arange realises loop bounds anyway: fork per value here
    b = _concretize(b, -2, n + 2)
    t = _inst(T_FOR[n], {7001: a, 7002: b})
    empty = b < a
    outside = (not empty) and (a < 1 or b > n)
    try:
        m = generator.generate(t, "M", {})
    except Exception:
        return 1 if outside else 0
    if outside:
        return 0
    f = m.dae_residual_function
    if empty:
        return 1 if f.n_out() == 0 or f.numel_out(0) == 0 else 0
    xs = PRIMES[:n]
    ws = [100.0 * (k + 1) for k in range(n)]
    r = f(0, [], [], xs + ws, [], [], [])
    got = sorted(float(r[k]) for k in range(r.numel()))
    exp = sorted(ws[k - 1] - xs[k - 1] for k in range(a, b + 1))
    return 1 if got == exp else 0


def lhs(i: int) -> int:
    """
    post: _ == 1
    """
    t = _inst(T_LHS, {7001: i})
    try:
        m = generator.generate(t, "M", {})
    except Exception:
        return 1 if (i < 1 or i > 3) else 0
    if i < 1 or i > 3:
        return 0
    r = _residual(m, 3)
    return 1 if r == [PRIMES[i - 1]] else 0


def reach_vec(n: int, i: int) -> int:
    """
    pre: n in (1, 2, 3) and pin(n=n)
    post: _ == 0
    """
    return vec(n, i)


# =====================================================================================================
# Extended family (strengthening round): loop-dependent subscript EXPRESSIONS, stepped loop ranges,
# loops over 2-D / nested / scalar symbols, function for-statements, strided and 2-D slices, degenerate
# shapes, subscripts computed from Integer parameters, der(x[i]).
#
# Conventions:
#  * every function returns 1 iff the real generate() behaved as C23 demands for these arguments;
#  * the arguments are CrossHair symbolic integers.  Values that the real code hands to numpy.arange or to
#    a CasADi constant (loop bounds, literals inside a subscript expression) are forked per value over the
#    stated window with _concretize (the real code would realise them at that point anyway); values that
#    only flow through get_integer / the range checks stay symbolic (and unbounded where stated);
#  * arrays are evaluated on DEC = 1, 10, 100, ... so that a sum of selected elements identifies the
#    selected multiset (each element at most 9 times);
#  * _w_<f> is the window predicate: it is the precondition of <f> AND what props/c23.py sweeps concretely
#    after a counterexample, so that the reported case ids do not depend on which witness z3 picks.
# =====================================================================================================
import itertools

DEC = [1.0, 10.0, 100.0, 1000.0, 10000.0, 100000.0, 1000000.0, 10000000.0]
import os

_F = chstubs.PIN.get("f")  # the extended-family function this CrossHair shard runs (set by props/c23.py)
_SHARD = "VERIF_PIN" in os.environ  # vk.chx always sets it for a shard; unset = concrete replay / sweep in the main process


def _want(*names):
    """Parse the templates of an extended-family function only where they are needed: in its own shards, and in
    the main process (replay / sweep), where every template is built."""
    return (not _SHARD) or _F in names


def _call(m, **given):
    """Evaluate the real dae_residual_function; inputs not given are zero vectors of the right size."""
    f = m.dae_residual_function
    if f.n_out() == 0 or f.numel_out(0) == 0:
        return []
    pos = {"x": 1, "der": 2, "alg": 3, "par": 6}
    args = [[0.0] * f.numel_in(k) for k in range(f.n_in())]
    args[0] = 0.0
    for name, vals in given.items():
        k = pos[name]
        if len(vals) != f.numel_in(k):
            raise AssertionError("harness: %s has %d elements, model wants %d" % (name, len(vals), f.numel_in(k)))
        args[k] = list(vals)
    r = f(*chstubs.deep_realize(args))
    return [float(r[k]) for k in range(r.numel())]


def _gen(t):
    """-> model, or None when the real generate() rejects the model."""
    try:
        return generator.generate(t, "M", {})
    except Exception:
        return None


def _gen_c(tpl, mapping):
    """generate() for an instance ALL of whose literals have been forked to concrete values (loop families: the
    real code hands them to numpy.arange / CasADi at once).  Nothing symbolic is left to execute, so CrossHair's
    tracing is switched off for the call (about 500x faster); CrossHair/z3 still enumerate the window."""
    if chstubs.HAVE_CH:
        with chstubs.NoTracing():
            plain = all(type(v) is int for v in mapping.values())
            if plain:
                return _gen(_inst(tpl, mapping))
    return _gen(_inst(tpl, mapping))


# ---- subscript expressions of the loop variable ------------------------------------------------------
IDX_EXPR = {0: "7003 - i", 1: "i + 7003", 2: "7003 * i", 3: "2 * i - 7003", 4: "7003 - 2 * i"}


def _ev(kind, c, i):
    if kind == 0:
        return c - i
    if kind == 1:
        return i + c
    if kind == 2:
        return c * i
    if kind == 3:
        return 2 * i - c
    return c - 2 * i


FOREXPR_N = (1, 2, 3, 4)
if _want("forexpr"):
    T_FOREXPR = {(n, k): _tpl(f"model M\n  Real x[{n}];\nequation\n  for i in 7001:7002 loop\n    x[{e}] = i;\n  end for;\nend M;\n")
                 for n in FOREXPR_N for k, e in IDX_EXPR.items()
                 if chstubs.PIN.get("n", n) == n and chstubs.PIN.get("kind", k) == k}


def _w_forexpr(n, kind, c, a, b):
    return n in FOREXPR_N and 0 <= kind <= 4 and 0 <= c <= n + 4 and 1 <= a <= b <= 3


def forexpr(n: int, kind: int, c: int, a: int, b: int) -> int:
    """
    pre: pin(n=n, kind=kind) and _w_forexpr(n, kind, c, a, b)
    post: _ == 1
    """
    n = _concretize(n, 1, 4)
    kind = _concretize(kind, 0, 4)
    c = _concretize(c, 0, n + 4)
    a = _concretize(a, 1, 3)
    b = _concretize(b, 1, 3)
    m = _gen_c(T_FOREXPR[(n, kind)], {7001: a, 7002: b, 7003: c})
    subs = [_ev(kind, c, i) for i in range(a, b + 1)]
    ok = all(1 <= e <= n for e in subs)
    if m is None:
        return 0 if ok else 1
    if not ok:
        return 0
    got = sorted(_call(m, alg=DEC[:n]))
    exp = sorted(DEC[e - 1] - i for e, i in zip(subs, range(a, b + 1)))
    return 1 if got == exp else 0


# ---- stepped loop ranges a:s:b ------------------------------------------------------------------------
FORSTEP_N = (2, 3, 4)
if _want("forstep"):
    T_FORSTEP = {n: _tpl(f"model M\n  Real x[{n}];\nequation\n  for i in 7001:7003:7002 loop\n    x[i] = i;\n  end for;\nend M;\n")
                 for n in FORSTEP_N if chstubs.PIN.get("n", n) == n}


def _w_forstep(n, s, a, b):
    return n in FORSTEP_N and 1 <= s <= 3 and 0 <= a <= n + 2 and a <= b <= n + 3


def forstep(n: int, s: int, a: int, b: int) -> int:
    """
    pre: pin(n=n, s=s) and _w_forstep(n, s, a, b)
    post: _ == 1
    """
    n = _concretize(n, 2, 4)
    s = _concretize(s, 1, 3)
    a = _concretize(a, 0, n + 2)
    b = _concretize(b, 0, n + 3)
    m = _gen_c(T_FORSTEP[n], {7001: a, 7002: b, 7003: s})
    vals = list(range(a, b + 1, s))
    ok = all(1 <= e <= n for e in vals)
    if m is None:
        return 0 if ok else 1
    if not ok:
        return 0
    got = sorted(_call(m, alg=DEC[:n]))
    exp = sorted(DEC[e - 1] - e for e in vals)
    return 1 if got == exp else 0


# ---- loops over one dimension of a 2-D symbol (plain matrix or array-of-components member) ----------------
def _mix_text(nest, pos, kind):
    e = "i" if kind == 0 else "7003 - i"
    if nest:
        ref = f"q[{e}].w[7004]" if pos == 0 else f"q[7004].w[{e}]"
        return f"model Q\n  Real w[3];\nend Q;\nmodel M\n  Q q[2];\nequation\n  for i in 7001:7002 loop\n    {ref} = i;\n  end for;\nend M;\n"
    ref = f"A[{e}, 7004]" if pos == 0 else f"A[7004, {e}]"
    return f"model M\n  Real A[2,3];\nequation\n  for i in 7001:7002 loop\n    {ref} = i;\n  end for;\nend M;\n"


if _want("formix"):
    T_FORMIX = {(ne, p, k): _tpl(_mix_text(ne, p, k)) for ne in (0, 1) for p in (0, 1) for k in (0, 1)
                if chstubs.PIN.get("nest", ne) == ne and chstubs.PIN.get("pos", p) == p and chstubs.PIN.get("kind", k) == k}


def _w_formix(nest, pos, kind, c, k, a, b):
    if not (nest in (0, 1) and pos in (0, 1)):
        return False
    if kind == 0:  # A[i, k] / A[k, i]: loop range and the constant subscript sweep past both ends
        return c == 0 and 0 <= k <= 4 and 0 <= a <= b <= 4
    if kind == 1:  # A[c - i, k] / A[k, c - i]: descending subscript
        return 2 <= c <= 5 and 1 <= k <= 2 and 1 <= a <= b <= 3
    return False


def formix(nest: int, pos: int, kind: int, c: int, k: int, a: int, b: int) -> int:
    """
    pre: pin(nest=nest, pos=pos, kind=kind) and _w_formix(nest, pos, kind, c, k, a, b)
    post: _ == 1
    """
    nest = _concretize(nest, 0, 1)
    pos = _concretize(pos, 0, 1)
    kind = _concretize(kind, 0, 1)
    c = _concretize(c, 0, 5)
    a = _concretize(a, 0, 4)
    b = _concretize(b, 0, 4)
    k = _concretize(k, 0, 4)
    m = _gen_c(T_FORMIX[(nest, pos, kind)], {7001: a, 7002: b, 7003: c, 7004: k})
    dims = (2, 3)
    subs = [(i if kind == 0 else c - i) for i in range(a, b + 1)]
    ok = all(1 <= e <= dims[pos] for e in subs) and 1 <= k <= dims[1 - pos]
    if m is None:
        return 0 if ok else 1
    if not ok:
        return 0
    got = sorted(_call(m, alg=DEC[:6]))
    exp = []
    for e, i in zip(subs, range(a, b + 1)):
        r, col = (e, k) if pos == 0 else (k, e)
        exp.append(DEC[(col - 1) * 2 + (r - 1)] - i)
    return 1 if got == sorted(exp) else 0


# ---- loop-variable subscript on a scalar: always an error ---------------------------------------------------
if _want("forscalar"):
    T_FORSCALAR = {k: _tpl(f"model M\n  Real s;\nequation\n  for i in 7001:7002 loop\n    s[{e}] = i;\n  end for;\nend M;\n")
                   for k, e in ((0, "i"), (1, "7003 - i"), (2, "i + 7003"))}


def _w_forscalar(kind, c, a, b):
    return 0 <= kind <= 2 and 0 <= a <= b <= 3 and ((kind == 0 and c == 0) or (kind > 0 and 0 <= c <= 2))


def forscalar(kind: int, c: int, a: int, b: int) -> int:
    """
    pre: pin(kind=kind) and _w_forscalar(kind, c, a, b)
    post: _ == 1
    """
    kind = _concretize(kind, 0, 2)
    c = _concretize(c, 0, 2)
    a = _concretize(a, 0, 3)
    b = _concretize(b, 0, 3)
    m = _gen_c(T_FORSCALAR[kind], {7001: a, 7002: b, 7003: c})
    return 1 if m is None else 0


# ---- for-statement in a function's algorithm section ---------------------------------------------------------
if _want("forfunc"):
    T_FORFUNC = {k: _tpl("function f\n  input Real x[3];\n  output Real y;\nalgorithm\n  y := 0;\n  for i in 7001:7002 loop\n"
                         f"    y := y + x[{e}];\n  end for;\nend f;\nmodel M\n  Real x[3];\n  Real y;\nequation\n  y = f(x);\nend M;\n")
                 for k, e in ((0, "i"), (1, "7003 - i")) if chstubs.PIN.get("kind", k) == k}


def _w_forfunc(kind, c, a, b):
    return ((kind == 0 and c == 0 and 0 <= a <= b <= 5) or (kind == 1 and 2 <= c <= 5 and 1 <= a <= b <= 3))


def forfunc(kind: int, c: int, a: int, b: int) -> int:
    """
    pre: pin(kind=kind) and _w_forfunc(kind, c, a, b)
    post: _ == 1
    """
    kind = _concretize(kind, 0, 1)
    c = _concretize(c, 0, 5)
    a = _concretize(a, 0, 5)
    b = _concretize(b, 0, 5)
    m = _gen_c(T_FORFUNC[kind], {7001: a, 7002: b, 7003: c})
    subs = [(i if kind == 0 else c - i) for i in range(a, b + 1)]
    ok = all(1 <= e <= 3 for e in subs)
    if m is None:
        return 0 if ok else 1
    if not ok:
        return 0
    got = _call(m, alg=DEC[:3] + [0.0])
    return 1 if got == [-sum(DEC[e - 1] for e in subs)] else 0


# ---- strided constant slices on several sizes (quick-tier companion of slice3) -----------------------------
SLICE3N_N = (1, 2, 3, 4)
if _want("slice3n"):
    T_SLICE3N = {n: _tpl(f"model M\n  Real x[{n}];\n  Real y;\nequation\n  y = sum(x[7001:7003:7002]);\nend M;\n")
                 for n in SLICE3N_N if chstubs.PIN.get("n", n) == n}


def _w_slice3n(n, s, a, b):
    return n in SLICE3N_N and 1 <= s <= 3 and -1 <= a <= n + 2 and -1 <= b <= n + 4


def _stepped(a, s, b):
    sel = []
    k = a
    while k <= b:
        sel.append(k)
        k += s
    return sel


def slice3n(n: int, s: int, a: int, b: int) -> int:
    """
    pre: pin(n=n, s=s) and _w_slice3n(n, s, a, b)
    post: _ == 1
    """
    n = _concretize(n, 1, 4)
    s = _concretize(s, 1, 3)  # Python's range() needs real integers: forked per value, generate() untraced
    a = _concretize(a, -1, n + 2)
    b = _concretize(b, -1, n + 4)
    sel = _stepped(a, s, b)
    empty = len(sel) == 0
    outside = any(k < 1 or k > n for k in sel)
    m = _gen_c(T_SLICE3N[n], {7001: a, 7002: b, 7003: s})
    if m is None:
        return 1 if (outside or empty) else 0
    if outside:
        return 0
    got = _call(m, alg=DEC[:n] + [0.0])
    if empty:  # "no element selected" (the equation may vanish altogether on a size-1 array, see slice2)
        return 1 if got in ([], [0.0]) else 0
    return 1 if got == [-sum(DEC[k - 1] for k in sel)] else 0


# ---- slices (plain and strided) in one dimension of a matrix, constant subscript in the other ---------------
if _want("mslice"):
    T_MSLICE = {p: _tpl("model M\n  Real A[2,3];\n  Real y;\nequation\n  y = sum(A[%s]);\nend M;\n" % sub)
                for p, sub in ((0, "7001:7003:7002, 7004"), (1, "7004, 7001:7003:7002"), (2, "7001:7002, 7004"), (3, "7004, 7001:7002"))
                if chstubs.PIN.get("pos", p % 2) == p % 2}


def _w_mslice(pos, s, r, a, b):
    d = 2 if pos == 0 else 3
    return pos in (0, 1) and 0 <= s <= 3 and 0 <= a <= d + 1 and 0 <= b <= d + 2 and 0 <= r <= 4  # s == 0: the unstrided spelling a:b


def mslice(pos: int, s: int, r: int, a: int, b: int) -> int:
    """
    pre: pin(pos=pos, s=s) and _w_mslice(pos, s, r, a, b)
    post: _ == 1
    """
    pos = _concretize(pos, 0, 1)
    s = _concretize(s, 0, 3)
    dims = (2, 3)
    a = _concretize(a, 0, 4)
    b = _concretize(b, 0, 5)
    r = _concretize(r, 0, 4)
    sel = _stepped(a, s if s > 0 else 1, b)
    empty = len(sel) == 0
    outside = any(k < 1 or k > dims[pos] for k in sel) or r < 1 or r > dims[1 - pos]
    m = _gen_c(T_MSLICE[pos if s > 0 else pos + 2], {7001: a, 7002: b, 7003: s, 7004: r})
    if m is None:
        return 1 if (outside or empty) else 0
    if outside:
        return 0
    got = _call(m, alg=DEC[:6] + [0.0])
    if empty:
        return 1 if all(g == 0.0 for g in got) else 0
    exp = 0.0
    for k in sel:
        row, col = (k, r) if pos == 0 else (r, k)
        exp += DEC[(col - 1) * 2 + (row - 1)]
    # sum() of a row keeps one residual entry per element (C11's subject); every selected element must occur once
    return 1 if (len(got) >= 1 and -sum(got) == exp) else 0


# ---- whole-dimension slices A[:, r] / A[r, :] ------------------------------------------------------------
if _want("mcolon"):
    T_MCOLON = {0: _tpl("model M\n  Real A[2,3];\n  Real y;\nequation\n  y = sum(A[:, 7004]);\nend M;\n"),
                1: _tpl("model M\n  Real A[2,3];\n  Real y;\nequation\n  y = sum(A[7004, :]);\nend M;\n")}


def _w_mcolon(pos, r):
    return pos in (0, 1)


def mcolon(pos: int, r: int) -> int:
    """
    pre: _w_mcolon(pos, r)
    post: _ == 1
    """
    pos = _concretize(pos, 0, 1)
    dims = (2, 3)
    m = _gen(_inst(T_MCOLON[pos], {7004: r}))
    ok = 1 <= r <= dims[1 - pos]
    if m is None:
        return 0 if ok else 1
    if not ok:
        return 0
    got = _call(m, alg=DEC[:6] + [0.0])
    exp = 0.0
    for k in range(1, dims[pos] + 1):
        row, col = (k, r) if pos == 0 else (r, k)
        exp += DEC[(col - 1) * 2 + (row - 1)]
    return 1 if (len(got) >= 1 and -sum(got) == exp) else 0


# ---- degenerate matrix shapes (a single element, a single row, a single column) -----------------------------
MATN_SHAPES = {0: (1, 1), 1: (1, 3), 2: (3, 1), 3: (2, 2)}
if _want("matn"):
    T_MATN = {k: _tpl(f"model M\n  Real A[{r},{c}];\n  Real y;\nequation\n  y = A[7001,7002];\nend M;\n")
              for k, (r, c) in MATN_SHAPES.items() if chstubs.PIN.get("sh", k) == k}


def _w_matn(sh, i, j):
    return sh in MATN_SHAPES


def matn(sh: int, i: int, j: int) -> int:
    """
    pre: pin(sh=sh) and _w_matn(sh, i, j)
    post: _ == 1
    """
    sh = _concretize(sh, 0, 3)
    rows, cols = MATN_SHAPES[sh]
    m = _gen(_inst(T_MATN[sh], {7001: i, 7002: j}))
    ok = 1 <= i <= rows and 1 <= j <= cols
    if m is None:
        return 0 if ok else 1
    if not ok:
        return 0
    got = _call(m, alg=DEC[:rows * cols] + [0.0])
    return 1 if got == [-DEC[(j - 1) * rows + (i - 1)]] else 0


# ---- subscript shapes that can never be valid: slices / several subscripts on a scalar, too many subscripts ----
REJECT = {0: ("Real s;", "sum(s[7001:7002])"), 1: ("Real s;", "sum(s[:])"), 2: ("Real s;", "s[7001,7002]"),
          3: ("Real x[3];", "x[7001,7002]"), 4: ("Real A[2,3];", "A[7001,7002,7001]"), 5: ("Real s;", "sum(s[7001:2:7002])"),
          6: ("Real x[3];", "sum(x[7001:7002,7001])")}
if _want("reject"):
    T_REJECT = {k: _tpl(f"model M\n  {d}\n  Real y;\nequation\n  y = {e};\nend M;\n") for k, (d, e) in REJECT.items()}


def _w_reject(kind, i, j):
    return kind in (1, 2, 3, 4) or (kind in (0, 5, 6) and -2 <= i <= 4 and -2 <= j <= 4)


def reject(kind: int, i: int, j: int) -> int:
    """
    pre: _w_reject(kind, i, j)
    post: _ == 1
    """
    kind = _concretize(kind, 0, 6)
    if kind in (0, 5, 6):  # a slice object ends up in the error message: its bounds cannot stay symbolic
        i = _concretize(i, -2, 4)
        j = _concretize(j, -2, 4)
    m = _gen_c(T_REJECT[kind], {7001: i, 7002: j})  # traced when i, j are still symbolic
    return 1 if m is None else 0


# ---- subscripts computed from an Integer parameter / a constant expression ------------------------------------
PSUB = {0: "x[k]", 1: "x[k + 7002]", 2: "x[k - 7002]", 3: "x[7001 + 7002]", 4: "sum(x[k:k + 7002])", 5: "sum(x[7002:k])", 6: "x[2 * k - 7002]"}
if _want("psub"):
    T_PSUB = {q: _tpl(f"model M\n  parameter Integer k = 7001;\n  Real x[3];\n  Real y;\nequation\n  y = {e};\nend M;\n")
              for q, e in PSUB.items() if chstubs.PIN.get("kind", q) == q}


def _w_psub(kind, k, d):
    if kind == 0:
        return d == 0  # plain x[k]: k ranges over ALL integers
    return 1 <= kind <= 6 and 0 <= k <= 5 and 0 <= d <= 4


def psub(kind: int, k: int, d: int) -> int:
    """
    pre: pin(kind=kind) and _w_psub(kind, k, d)
    post: _ == 1
    """
    kind = _concretize(kind, 0, 6)
    if kind != 0:  # the literals of an expression become CasADi constants
        k = _concretize(k, 0, 5)
        d = _concretize(d, 0, 4)
    m = _gen_c(T_PSUB[kind], {7001: k, 7002: d})  # traced for kind 0 (k symbolic)
    if kind == 4:
        sel = list(range(k, k + d + 1))
    elif kind == 5:
        sel = list(range(d, k + 1))
    else:
        sel = [{0: k, 1: k + d, 2: k - d, 3: k + d, 6: 2 * k - d}[kind]]
    empty = len(sel) == 0
    outside = any(e < 1 or e > 3 for e in sel)
    if m is None:
        return 1 if (outside or empty) else 0
    if outside:
        return 0
    got = _call(m, alg=DEC[:3] + [0.0], par=[float(k)])
    if empty:
        return 1 if got in ([], [0.0]) else 0
    return 1 if got == [-sum(DEC[e - 1] for e in sel)] else 0


# ---- der(x[i]) ---------------------------------------------------------------------------------------------
if _want("derv"):
    T_DERV = _tpl("model M\n  Real x[3];\n  Real y;\nequation\n  der(x[7001]) = y;\nend M;\n")


def _w_derv(i):
    return True


def derv(i: int) -> int:
    """
    post: _ == 1
    """
    m = _gen(_inst(T_DERV, {7001: i}))
    ok = 1 <= i <= 3
    if m is None:
        return 0 if ok else 1
    if not ok:
        return 0
    got = _call(m, x=[0.0, 0.0, 0.0], der=DEC[:3], alg=[0.0])
    return 1 if got == [DEC[i - 1]] else 0


# =====================================================================================================
# Third round.  Two classes the family lacked:
#  (A) subscripted references reached through a HIERARCHICAL name some of whose levels carry neither a subscript nor
#      a dimension (an array inside a non-array component instance `a.x[..]`, two levels `b.a.x[..]`, an equation
#      written inside the component's class, a scalar member of a component array `q[..].s`, a matrix inside an
#      instance, three levels `q[..].a.x[..]`): loop-dependent subscripts (forhier), constant subscripts over ALL
#      integers (hsub, traced) and slices (hslice);
#  (B) OBSERVATION POINTS other than an equation's residual: a subscripted reference as (part of) the value of a
#      symbol attribute (start / min / max / nominal / fixed), of a parameter / constant binding, of a declaration
#      equation, of a component modification (attr, attrslice), and inside other expression contexts (unary minus,
#      products, builtins, if-expressions, if-equations, user function calls, initial equations: ctx).
# All but hsub are window families: every argument is forked to a concrete value and the real generate() plus the
# evaluation of what it produced run untraced.
# =====================================================================================================


def _in_group(groups, g, member):
    """member in groups[g], written as an if-chain (a dict lookup with a symbolic key would realise it)."""
    for gg, members in groups.items():
        if g == gg:
            return member in members
    return False


def _cap(name, default):
    """Upper limit of a variant dimension in this shard (props/c23.py pins <name> in the quick tier to leave the later,
    more expensive variants to the thorough tier); no limit in the main process (replay / sweep)."""
    return chstubs.PIN.get(name, default)


def _plain(fn, *args):
    """Run fn(*args) with CrossHair's tracing off when every argument has been forked to a plain int."""
    if chstubs.HAVE_CH:
        with chstubs.NoTracing():
            if all(type(v) is int for v in args):
                return fn(*args)
    return fn(*args)


def _eval(m, expr, given):
    """Evaluate an expression of the generated model (a residual, or the value of a Variable attribute) with the
    model symbols named in `given` set to the listed values (column-major) and every other symbol at zero."""
    if isinstance(expr, (bool, int, float)):
        return [float(expr)]
    syms, vals = [m.time], [ca.DM(0.0)]
    for grp in ("states", "der_states", "alg_states", "inputs", "parameters", "constants"):
        for v in getattr(m, grp):
            s = v.symbol
            syms.append(s)
            if s.name() in given:
                vals.append(ca.reshape(ca.DM(list(given[s.name()])), s.size1(), s.size2()))
            else:
                vals.append(ca.DM.zeros(s.size1(), s.size2()))
    r = ca.Function("e", syms, [ca.MX(expr)])(*vals)
    return [float(r[k]) for k in range(r.numel())]


def _var(m, name):
    for grp in ("states", "alg_states", "inputs", "parameters", "constants"):
        for v in getattr(m, grp):
            if v.symbol.name() == name:
                return v
    return None


# ---- (A) hierarchical names ---------------------------------------------------------------------------------
_C_X = "model C\n  Real x[3];\nend C;\n"
# sh: (classes, declaration in M, reference ({E}: the swept subscript, 7004: the other one), dims, position of {E}, symbol)
HIER = {0: (_C_X, "C a;", "a.x[{E}]", (3,), 0),
        1: (_C_X + "model B\n  C a;\nend B;\n", "B b;", "b.a.x[{E}]", (3,), 0),
        2: None,  # the equation is written inside C (see _hier_text)
        3: ("model Q\n  Real s;\nend Q;\n", "Q q[3];", "q[{E}].s", (3,), 0),
        4: ("model C\n  Real W[2,3];\nend C;\n", "C a;", "a.W[{E}, 7004]", (2, 3), 0),
        5: ("model C\n  Real W[2,3];\nend C;\n", "C a;", "a.W[7004, {E}]", (2, 3), 1),
        6: (_C_X + "model Q\n  C a;\nend Q;\n", "Q q[2];", "q[{E}].a.x[7004]", (2, 3), 0),
        7: (_C_X + "model Q\n  C a;\nend Q;\n", "Q q[2];", "q[7004].a.x[{E}]", (2, 3), 1),
        8: ("model C\n  Real s;\nend C;\n", "C a;", "a.s[{E}]", (), 0),  # a scalar inside an instance: never valid
        9: ("model C\n  Real s;\nend C;\n", "C a;", "a[{E}].s", (), 0)}  # a subscript on the (scalar) instance: never valid
HIER_TWO = (4, 5, 6, 7)  # shapes with two dimensions
HIER_DIMS = {k: (v[3] if v else (3,)) for k, v in HIER.items()}
HIER_POS = {k: (v[4] if v else 0) for k, v in HIER.items()}


def _hier_text(sh, body, extra=""):
    """Model text: `body` (with {R} for the reference) is the equation section of M - of C for sh == 2."""
    if sh == 2:
        return "model C\n  Real x[3];\n" + extra + "equation\n" + body.replace("{R}", "x[{E}]") + "end C;\nmodel M\n  C a;\nend M;\n"
    classes, decl, ref = HIER[sh][:3]
    return classes + "model M\n  " + decl + "\n" + extra + "equation\n" + body.replace("{R}", ref) + "end M;\n"


def _hier_decl(sh):
    """Declarations of a shape, for reports."""
    if sh == 2:
        return "C: Real x[3]; "
    return " ".join(HIER[sh][0].split()).replace("model C ", "C: ").replace("model B ", "B: ").replace("model Q ", "Q: ").replace(" end C;", "").replace(" end B;", "").replace(" end Q;", "") + " " + HIER[sh][1] + " "


def _hier_elem(sh, e, k):
    """Position (0-based, column-major) of the element the reference selects for swept subscript e and other subscript k."""
    dims = HIER_DIMS[sh]
    if len(dims) == 1:
        return e - 1
    r, c = (e, k) if HIER_POS[sh] == 0 else (k, e)
    return (c - 1) * dims[0] + (r - 1)


def _hier_ok(sh, subs, k):
    dims = HIER_DIMS[sh]
    if len(dims) == 0:
        return False
    p = HIER_POS[sh]
    return all(1 <= e <= dims[p] for e in subs) and (len(dims) == 1 or 1 <= k <= dims[1 - p])


def _hier_size(sh):
    n = 1
    for d in HIER_DIMS[sh]:
        n *= d
    return n


# loop-dependent subscripts.  ek: the subscript expression and the spelling of the loop range
FORHIER_E = {0: ("i", "7001:7002"), 1: ("7003 - i", "7001:7002"), 2: ("i - 7003", "7001:7002"), 3: ("i + 7003", "7001:7002"),
             4: ("i + 7003", "-7001:7002")}  # 4: a negative start as the parser produces it (unary minus)
FORHIER_G = {0: (0, 1), 1: (2, 3, 8, 9), 2: (4,), 3: (5,), 4: (6,), 5: (7,)}  # shard groups


def _forhier_tpl(sh, side, ek):
    e, rng = FORHIER_E[ek]
    eq = "{R} = i" if side == 0 else "i = {R}"
    return _tpl(_hier_text(sh, f"  for i in {rng} loop\n    {eq};\n  end for;\n").replace("{E}", e))


if _want("forhier"):
    T_FORHIER = {(sh, side, ek): _forhier_tpl(sh, side, ek) for g, shs in FORHIER_G.items() if chstubs.PIN.get("g", g) == g
                 for sh in shs for side in (0, 1) for ek in FORHIER_E}


def _forhier_vals(ek, c, a, b):
    """-> (loop values, subscript values)"""
    loop = list(range(-a if ek == 4 else a, b + 1))
    return loop, [{0: i, 1: c - i, 2: i - c, 3: i + c, 4: i + c}[ek] for i in loop]


def _w_forhier(g, sh, side, ek, c, k, a, b):
    if not (_in_group(FORHIER_G, g, sh) and side in (0, 1)):
        return False
    if sh in HIER_TWO:  # the constant subscript of the other dimension sweeps past both ends for x[i] on the left
        if not (k == 1 or (ek == 0 and side == 0 and 0 <= k <= 4)):
            return False
    elif k != 0:
        return False
    if ek == 0:  # x[i]: the range sweeps past both ends
        return c == 0 and -1 <= a <= b <= 4
    if ek == 1:  # descending
        return 2 <= c <= 5 and 1 <= a <= b <= 3
    if ek == 2:
        return 1 <= c <= 2 and 1 <= a <= b <= 5
    if ek == 3:
        return 1 <= c <= 2 and -1 <= a <= b <= 3
    if ek == 4:  # for i in -a:b
        return 0 <= c <= 3 and 0 <= a <= 2 and 0 <= b <= 3
    return False


def _forhier_check(sh, side, ek, c, k, a, b):
    m = _gen(_inst(T_FORHIER[(sh, side, ek)], {7001: a, 7002: b, 7003: c, 7004: k}))
    loop, subs = _forhier_vals(ek, c, a, b)
    ok = _hier_ok(sh, subs, k)
    if m is None:
        return 0 if ok else 1
    if not ok:
        return 0
    n = _hier_size(sh)
    got = sorted(_call(m, alg=DEC[:n]))
    sign = 1.0 if side == 0 else -1.0
    exp = sorted(sign * (DEC[_hier_elem(sh, e, k)] - i) for e, i in zip(subs, loop))
    return 1 if got == exp else 0


def forhier(g: int, sh: int, side: int, ek: int, c: int, k: int, a: int, b: int) -> int:
    """
    pre: pin(g=g, ek=ek) and ek <= _cap("ekmax", 4) and _w_forhier(g, sh, side, ek, c, k, a, b)
    post: _ == 1
    """
    g = _concretize(g, 0, 5)
    sh = _concretize(sh, 0, 9)
    side = _concretize(side, 0, 1)
    ek = _concretize(ek, 0, 4)
    c = _concretize(c, 0, 5)
    k = _concretize(k, 0, 4)
    a = _concretize(a, -1, 5)
    b = _concretize(b, -1, 5)
    return _plain(_forhier_check, sh, side, ek, c, k, a, b)


# constant subscripts: ALL integers, symbolically executed (flattening an instance hierarchy under tracing is slow:
# thorough tier) - or, in a shard pinned win=1, the window i in [-3, 6], j in [-1, 5] forked to concrete values (quick tier)
HSUB_G = {0: (0,), 1: (8, 9), 2: (1, 2), 3: (3,), 4: (4,), 5: (6,)}  # shard groups (4/5 and 6/7 are the same reference here)
if _want("hsub"):
    T_HSUB = {sh: _tpl(_hier_text(sh, "  y = {R};\n", "  Real y;\n").replace("{E}", "7001"))
              for g, shs in HSUB_G.items() if chstubs.PIN.get("g", g) == g for sh in shs}


def _w_hsub(g, sh, i, j):
    return _in_group(HSUB_G, g, sh) and (sh in HIER_TWO or j == 0)


def _hsub_check(sh, i, j):
    m = _gen(_inst(T_HSUB[sh], {7001: i, 7004: j}))
    ok = _hier_ok(sh, [i], j)
    if m is None:
        return 0 if ok else 1
    if not ok:
        return 0
    got = _call(m, alg=DEC[:_hier_size(sh)] + [0.0])
    return 1 if got == [-DEC[_hier_elem(sh, i, j)]] else 0


def hsub(g: int, sh: int, i: int, j: int) -> int:
    """
    pre: pin(g=g) and _w_hsub(g, sh, i, j) and (_cap("win", 0) == 0 or (-3 <= i <= 6 and -1 <= j <= 5))
    post: _ == 1
    """
    g = _concretize(g, 0, 5)
    sh = _concretize(sh, 0, 9)
    if _cap("win", 0):
        return _plain(_hsub_check, sh, _concretize(i, -3, 6), _concretize(j, -1, 5))
    return _hsub_check(sh, i, j)


# slices (s == 0: the unstrided spelling a:b)
HSLICE_SH = (0, 1, 2, 3, 8, 9)
if _want("hslice"):
    T_HSLICE = {(sh, st): _tpl(_hier_text(sh, "  y = sum({R});\n", "  Real y;\n").replace("{E}", "7001:7003:7002" if st else "7001:7002"))
                for sh in HSLICE_SH for st in (0, 1) if chstubs.PIN.get("sh", sh) == sh}


def _w_hslice(sh, s, a, b):
    return sh in HSLICE_SH and 0 <= s <= 3 and 0 <= a <= 4 and 0 <= b <= 5


def _hslice_check(sh, s, a, b):
    sel = _stepped(a, s if s > 0 else 1, b)
    empty = len(sel) == 0
    outside = (not _hier_ok(sh, sel, 0)) and not empty
    m = _gen(_inst(T_HSLICE[(sh, 1 if s > 0 else 0)], {7001: a, 7002: b, 7003: s}))
    if m is None:
        return 1 if (outside or empty or sh in (8, 9)) else 0
    if outside or sh in (8, 9):  # a slice of a scalar is never valid, not even an empty one
        return 0
    got = _call(m, alg=DEC[:3] + [0.0])
    if empty:
        return 1 if got in ([], [0.0]) else 0
    return 1 if got == [-sum(DEC[k - 1] for k in sel)] else 0


def hslice(sh: int, s: int, a: int, b: int) -> int:
    """
    pre: pin(sh=sh, s=s) and _w_hslice(sh, s, a, b)
    post: _ == 1
    """
    sh = _concretize(sh, 0, 9)
    s = _concretize(s, 0, 3)
    a = _concretize(a, 0, 4)
    b = _concretize(b, 0, 5)
    return _plain(_hslice_check, sh, s, a, b)


# ---- (B) a subscripted reference as the value of an attribute / binding / modification ----------------------------
# src: (classes, declaration ({T}: element type), reference, dims, name of the generated symbol)
ATTR_SRC = {0: ("", "parameter {T} p[3];", "p[7001]", (3,), "p"),
            1: ("", "parameter {T} P[2,3];", "P[7001, 7002]", (2, 3), "P"),
            2: ("", "parameter {T} s;", "s[7001]", (), "s"),  # a subscript on a scalar: never valid
            3: ("model C\n  parameter {T} p[3];\nend C;\n", "C a;", "a.p[7001]", (3,), "a.p")}
ATTR_FORM = {0: "{R}", 1: "2 * {R}", 2: "-{R}"}
_D = "model D\n  parameter Real k;\n  Real x;\nequation\n  x = k;\nend D;\n"
# host: (classes, declarations, equations, variable carrying the value, attribute - None: the residual of equation 0)
ATTR_HOST = {0: ("", "Real y(start = {V});", "y = 1;", "y", "start"),
             1: ("", "Real y(min = {V});", "y = 1;", "y", "min"),
             2: ("", "Real y(max = {V});", "y = 1;", "y", "max"),
             3: ("", "Real y(nominal = {V});", "y = 1;", "y", "nominal"),
             4: ("", "parameter Real q = {V};\n  Real y;", "y = q;", "q", "value"),
             5: ("", "constant Real q = {V};\n  Real y;", "y = q;", "q", "value"),
             6: ("", "Real y = {V};", "", "y", None),  # declaration equation
             7: ("", "input Real u(max = {V});\n  Real y;", "y = u;", "u", "max"),
             8: ("", "Real x(start = {V});", "der(x) = 1;", "x", "start"),  # a state
             9: (_D, "D d(x(start = {V}));", "", "d.x", "start"),  # modification of a component's variable
             10: (_D, "D d(k = {V});", "", "d.k", "value"),  # modification of a component's parameter
             11: ("", "Real x(fixed = {V});", "der(x) = 1;", "x", "fixed"),  # Boolean attribute: form 0 only
             12: ("", "parameter Real q(min = {V}) = 1;\n  Real y;", "y = q;", "q", "min")}
ATTR_G = {0: (0, 4, 9), 1: (1, 6, 11), 2: (2, 5, 10), 3: (3, 7, 8, 12)}  # shard groups


def _attr_text(host, value, src, ty="Real"):
    """Model text for a host (classes, declarations with {V}, equations, ...) and a source of the subscripted symbol."""
    hc, hd, he = host[:3]
    sc, sd = ATTR_SRC[src][:2]
    eqs = ("equation\n  " + he + "\n") if he else ""
    return (sc + hc).replace("{T}", ty) + "model M\n  " + sd.replace("{T}", ty) + "\n  " + hd.replace("{V}", value) + "\n" + eqs + "end M;\n"


def _attr_tpl(h, form, src):
    return _tpl(_attr_text(ATTR_HOST[h], ATTR_FORM[form].replace("{R}", ATTR_SRC[src][2]), src, "Boolean" if h == 11 else "Real"))


if _want("attr"):
    T_ATTR = {(h, form, src): _attr_tpl(h, form, src) for g, hs in ATTR_G.items() if chstubs.PIN.get("g", g) == g
              for h in hs for form in ATTR_FORM for src in ATTR_SRC if not (h == 11 and form != 0)}


def _w_attr(g, h, form, src, i, j):
    if not (_in_group(ATTR_G, g, h) and 0 <= form <= 2 and 0 <= src <= 3) or (h == 11 and form != 0):
        return False
    if src == 1:
        return 0 <= i <= 3 and 0 <= j <= 4
    if src == 2:
        return 0 <= i <= 1 and j == 0
    return -1 <= i <= 4 and j == 0


def _attr_value(m, host, given):
    """What the generated model holds at the observation point of a host, evaluated with the source symbol at DEC."""
    name, attr = host[3:]
    if attr is None:
        return [-x for x in _eval(m, ca.vertcat(*m.equations), given)]  # residual y - V at y = 0
    v = _var(m, name)
    if v is None:
        return None
    return _eval(m, getattr(v, attr), given)


def _attr_check(h, form, src, i, j):
    dims, sym = ATTR_SRC[src][3:]
    ok = len(dims) > 0 and 1 <= i <= dims[0] and (len(dims) == 1 or 1 <= j <= dims[1])
    m = _gen(_inst(T_ATTR[(h, form, src)], {7001: i, 7002: j}))
    if m is None:
        return 0 if ok else 1
    if not ok:
        return 0
    n = 1
    for d in dims:
        n *= d
    el = DEC[i - 1] if len(dims) == 1 else DEC[(j - 1) * dims[0] + (i - 1)]
    exp = {0: el, 1: 2 * el, 2: -el}[form]
    return 1 if _attr_value(m, ATTR_HOST[h], {sym: DEC[:n]}) == [exp] else 0


def attr(g: int, h: int, form: int, src: int, i: int, j: int) -> int:
    """
    pre: pin(g=g, form=form) and form <= _cap("formmax", 2) and _w_attr(g, h, form, src, i, j)
    post: _ == 1
    """
    g = _concretize(g, 0, 3)
    h = _concretize(h, 0, 12)
    form = _concretize(form, 0, 2)
    src = _concretize(src, 0, 3)
    i = _concretize(i, -1, 4)
    j = _concretize(j, 0, 4)
    return _plain(_attr_check, h, form, src, i, j)


# slices as the value of an array host of size 2 (s == 0: the unstrided spelling)
_D2 = "model D\n  parameter Real k[2];\n  Real x;\nequation\n  x = k[1];\nend D;\n"
ATTRSLICE_HOST = {0: ("", "Real y[2](start = {V});", "y = {1, 2};", "y", "start"),
                  1: ("", "Real y[2](min = {V});", "y = {1, 2};", "y", "min"),
                  2: ("", "parameter Real q[2] = {V};\n  Real y;", "y = q[1];", "q", "value"),
                  3: ("", "Real y[2] = {V};", "", "y", None),
                  4: (_D2, "D d(k = {V});", "", "d.k", "value")}


def _attrslice_tpl(h, st, src):
    return _tpl(_attr_text(ATTRSLICE_HOST[h], ATTR_SRC[src][2].replace("7001", "7001:7003:7002" if st else "7001:7002"), src))


if _want("attrslice"):
    T_ATTRSLICE = {(h, st, src): _attrslice_tpl(h, st, src) for h in ATTRSLICE_HOST for st in (0, 1) for src in (0, 3)
                   if chstubs.PIN.get("src", src) == src}


def _w_attrslice(h, src, s, a, b):
    return 0 <= h <= 4 and src in (0, 3) and 0 <= s <= 2 and 0 <= a <= 4 and 0 <= b <= 5


def _attrslice_check(h, src, s, a, b):
    sel = _stepped(a, s if s > 0 else 1, b)
    outside = any(k < 1 or k > 3 for k in sel)
    m = _gen(_inst(T_ATTRSLICE[(h, 1 if s > 0 else 0, src)], {7001: a, 7002: b, 7003: s}))
    if m is None:
        return 1  # in range: the host has 2 elements, other lengths may be refused (not a range question)
    if outside:
        return 0
    if len(sel) != 2:
        return 1
    return 1 if _attr_value(m, ATTRSLICE_HOST[h], {ATTR_SRC[src][4]: DEC[:3]}) == [DEC[k - 1] for k in sel] else 0


def attrslice(h: int, src: int, s: int, a: int, b: int) -> int:
    """
    pre: pin(src=src, s=s) and _w_attrslice(h, src, s, a, b)
    post: _ == 1
    """
    h = _concretize(h, 0, 4)
    src = _concretize(src, 0, 3)
    s = _concretize(s, 0, 2)
    a = _concretize(a, 0, 4)
    b = _concretize(b, 0, 5)
    return _plain(_attrslice_check, h, src, s, a, b)


# other expression contexts of an equation section (x = DEC; the residual at y = 0 must be the context's value)
_CTX_F = "function f\n  input Real u;\n  output Real v;\nalgorithm\n  v := 2 * u + 1;\nend f;\n"
CTX = {0: ("y = -x[7001];", lambda v: [v]), 1: ("y = x[7001] * x[2];", lambda v: [-v * 10.0]), 2: ("y = abs(x[7001]);", lambda v: [-v]),
       3: ("y = if x[7001] > 5 then 3 else 4;", lambda v: [-3.0 if v > 5 else -4.0]), 4: ("y = f(x[7001]);", lambda v: [-(2 * v + 1)]),
       5: ("y = min(x[7001], 50);", lambda v: [-min(v, 50.0)]), 6: ("y = x[7001] ^ 2;", lambda v: [-v * v]),
       7: ("if x[7001] > 5 then\n    y = 3;\n  else\n    y = 4;\n  end if;", lambda v: [-3.0 if v > 5 else -4.0]),
       8: ("y = if time > 1 then 0 else x[7001];", lambda v: [-v]), 9: ("y = x[2] - x[7001] / 4;", lambda v: [-(10.0 - v / 4)]),
       10: None}  # 10: initial equation


def _ctx_text(q):
    if q == 10:
        return "model M\n  Real x[3];\n  Real y;\ninitial equation\n  y = x[7001];\nequation\n  der(y) = 1;\nend M;\n"
    return _CTX_F + "model M\n  Real x[3];\n  Real y;\nequation\n  " + CTX[q][0] + "\nend M;\n"


if _want("ctx"):
    T_CTX = {q: _tpl(_ctx_text(q)) for q in CTX}


def _w_ctx(q, i):
    return q in CTX and -2 <= i <= 5


def _ctx_check(q, i):
    ok = 1 <= i <= 3
    m = _gen(_inst(T_CTX[q], {7001: i}))
    if m is None:
        return 0 if ok else 1
    if not ok:
        return 0
    if q == 10:
        return 1 if _eval(m, ca.vertcat(*m.initial_equations), {"x": DEC[:3]}) == [-DEC[i - 1]] else 0
    return 1 if _eval(m, ca.vertcat(*m.equations), {"x": DEC[:3]}) == CTX[q][1](DEC[i - 1]) else 0


def ctx(q: int, i: int) -> int:
    """
    pre: _w_ctx(q, i)
    post: _ == 1
    """
    q = _concretize(q, 0, 10)
    i = _concretize(i, -2, 5)
    return _plain(_ctx_check, q, i)


# ---- concrete sweep of a shard's window (used by props/c23.py after a counterexample; no CrossHair) -----------
SWEEP_BOX = range(-2, 10)
WINDOWED = {"forexpr": (_w_forexpr, ("n", "kind", "c", "a", "b")), "forstep": (_w_forstep, ("n", "s", "a", "b")),
            "formix": (_w_formix, ("nest", "pos", "kind", "c", "k", "a", "b")), "forscalar": (_w_forscalar, ("kind", "c", "a", "b")),
            "forfunc": (_w_forfunc, ("kind", "c", "a", "b")), "slice3n": (_w_slice3n, ("n", "s", "a", "b")),
            "mslice": (_w_mslice, ("pos", "s", "r", "a", "b")), "mcolon": (_w_mcolon, ("pos", "r")), "matn": (_w_matn, ("sh", "i", "j")),
            "reject": (_w_reject, ("kind", "i", "j")), "psub": (_w_psub, ("kind", "k", "d")), "derv": (_w_derv, ("i",)),
            "forhier": (_w_forhier, ("g", "sh", "side", "ek", "c", "k", "a", "b")), "hsub": (_w_hsub, ("g", "sh", "i", "j")),
            "hslice": (_w_hslice, ("sh", "s", "a", "b")), "attr": (_w_attr, ("g", "h", "form", "src", "i", "j")),
            "attrslice": (_w_attrslice, ("h", "src", "s", "a", "b")), "ctx": (_w_ctx, ("q", "i"))}


def sweep(func, pinned):
    """All argument tuples of `func` inside its window (unbounded arguments: inside SWEEP_BOX) that agree with
    the shard's pinned values and for which the harness function does not return 1."""
    pred, names = WINDOWED[func]
    axes = [[pinned[nm]] if nm in pinned else list(SWEEP_BOX) for nm in names]
    bad = []
    for args in itertools.product(*axes):
        if not pred(*args):
            continue
        try:
            res = globals()[func](*args)
        except Exception as e:  # never on the unchanged tree
            res = repr(e)
        if res != 1:
            bad.append((args, res))
    return bad


def describe(func, args):
    """The Modelica fragment an argument tuple of an extended-family function stands for (for reports)."""
    def sub(text, m):
        for k, v in m.items():
            text = text.replace(str(k), str(v))
        return text

    try:
        if func == "forexpr":
            n, kind, c, a, b = args
            return f"Real x[{n}]; for i in {a}:{b} loop x[{sub(IDX_EXPR[kind], {7003: c})}] = i"
        if func == "forstep":
            n, s, a, b = args
            return f"Real x[{n}]; for i in {a}:{s}:{b} loop x[i] = i"
        if func == "formix":
            nest, pos, kind, c, k, a, b = args
            body = _mix_text(nest, pos, kind).split("loop\n")[1].split(";")[0].strip()
            return ("Q q[2] (Real w[3]); " if nest else "Real A[2,3]; ") + f"for i in {a}:{b} loop " + sub(body, {7003: c, 7004: k})
        if func == "forscalar":
            kind, c, a, b = args
            return f"Real s; for i in {a}:{b} loop s[{sub(('i', '7003 - i', 'i + 7003')[kind], {7003: c})}] = i"
        if func == "forfunc":
            kind, c, a, b = args
            return f"function: input Real x[3]; for i in {a}:{b} loop y := y + x[{'i' if kind == 0 else str(c) + ' - i'}]"
        if func == "slice3n":
            n, s, a, b = args
            return f"Real x[{n}]; y = sum(x[{a}:{s}:{b}])"
        if func == "mslice":
            pos, s, r, a, b = args
            sl = f"{a}:{s}:{b}" if s > 0 else f"{a}:{b}"
            return "Real A[2,3]; y = sum(A[" + (f"{sl}, {r}" if pos == 0 else f"{r}, {sl}") + "])"
        if func == "mcolon":
            pos, r = args
            return "Real A[2,3]; y = sum(A[" + (f":, {r}" if pos == 0 else f"{r}, :") + "])"
        if func == "matn":
            sh, i, j = args
            return "Real A[%d,%d]; y = A[%d,%d]" % (MATN_SHAPES[sh] + (i, j))
        if func == "reject":
            kind, i, j = args
            return REJECT[kind][0] + " y = " + sub(REJECT[kind][1], {7001: i, 7002: j})
        if func == "psub":
            kind, k, d = args
            return f"parameter Integer k = {k}; Real x[3]; y = " + sub(PSUB[kind], {7001: k, 7002: d})
        if func == "derv":
            return f"Real x[3]; der(x[{args[0]}]) = y"
        if func == "forhier":
            g, sh, side, ek, c, k, a, b = args
            e, rng = FORHIER_E[ek]
            ref = ("x[{E}] (equation inside C; C a)" if sh == 2 else HIER[sh][2]).replace("{E}", e)
            return _hier_decl(sh) + f"for i in {sub(rng, {7001: a, 7002: b})} loop " + sub(f"{ref} = i" if side == 0 else f"i = {ref}", {7003: c, 7004: k})
        if func == "hsub":
            g, sh, i, j = args
            return _hier_decl(sh) + "y = " + sub(("x[{E}] (equation inside C; C a)" if sh == 2 else HIER[sh][2]).replace("{E}", "7001"), {7001: i, 7004: j})
        if func == "hslice":
            sh, s, a, b = args
            sl = f"{a}:{s}:{b}" if s > 0 else f"{a}:{b}"
            return _hier_decl(sh) + "y = sum(" + ("x[{E}] (equation inside C; C a)" if sh == 2 else HIER[sh][2]).replace("{E}", sl) + ")"
        if func == "attr":
            g, h, form, src, i, j = args
            return ATTR_SRC[src][1].replace("{T}", "Boolean" if h == 11 else "Real") + " " + sub(ATTR_HOST[h][1].replace("{V}", ATTR_FORM[form].replace("{R}", ATTR_SRC[src][2])), {7001: i, 7002: j}).replace("\n ", "")
        if func == "attrslice":
            h, src, s, a, b = args
            sl = f"{a}:{s}:{b}" if s > 0 else f"{a}:{b}"
            return ATTR_SRC[src][1].replace("{T}", "Real") + " " + ATTRSLICE_HOST[h][1].replace("{V}", ATTR_SRC[src][2].replace("7001", sl)).replace("\n ", "")
        if func == "ctx":
            q, i = args
            return "Real x[3]; " + ("initial equation y = x[%d]" % i if q == 10 else sub(CTX[q][0], {7001: i}).replace("\n  ", " "))
    except Exception:
        pass
    return ""
