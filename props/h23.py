"""CrossHair harness for C23: subscripts are symbolic integers flowing through the real
generate -> get_component -> get_indexed_symbol -> get_integer."""
import pickle

import casadi as ca

from pymoca import parser, tree
from pymoca.backends.casadi import generator
from vk import chstubs
from vk.chstubs import pin

chstubs.install_format_cut()
chstubs.install_casadi_realizers()
chstubs.silence(generator, tree)

PRIMES = [2.0, 3.0, 5.0, 7.0, 11.0, 13.0]


def _tpl(text):
    return pickle.dumps(parser.parse(text, bypass_cache=True))


class _Subst(tree.TreeListener):
    def __init__(self, m):
        super().__init__()
        self.m = m

    def exitPrimary(self, t):
        if type(t.value) is int and t.value in self.m:
            t.value = self.m[t.value]


def _inst(tpl, m):
    t = pickle.loads(tpl)
    tree.TreeWalker().walk(_Subst(m), t)
    return t


def _vec(n):
    return f"model M\n  Real x[{n}];\n  Real y;\nequation\n  y = x[7001];\nend M;\n"


T_VEC = {n: _tpl(_vec(n)) for n in (1, 2, 3)}
T_MAT = _tpl("model M\n  Real A[2,3];\n  Real y;\nequation\n  y = A[7001,7002];\nend M;\n")
T_SCAL = _tpl("model M\n  Real s;\n  Real y;\nequation\n  y = s[7001];\nend M;\n")
T_NEST = _tpl("model Q\n  Real w[3];\nend Q;\nmodel M\n  Q q[2];\n  Real y;\nequation\n  y = q[7001].w[7002];\nend M;\n")
T_SLICE = {n: _tpl(f"model M\n  Real x[{n}];\n  Real y;\nequation\n  y = sum(x[7001:7002]);\nend M;\n") for n in (1, 2, 3)}
T_SLICE3 = _tpl("model M\n  Real x[5];\n  Real y;\nequation\n  y = sum(x[7001:7003:7002]);\nend M;\n")
T_FOR = {n: _tpl(f"model M\n  Real x[{n}];\n  Real w[{n}];\nequation\n  for i in 7001:7002 loop\n    w[i] = x[i];\n  end for;\nend M;\n") for n in (2, 3)}
T_LHS = _tpl("model M\n  Real x[3];\n  Real y;\nequation\n  x[7001] = y;\nend M;\n")


def _concretize(v, lo, hi):
    for c in range(lo, hi + 1):
        if v == c:
            return c
    return v


def _residual(m, nx, extra=1, y=0.0):
    f = m.dae_residual_function
    vals = PRIMES[:nx] + [y] * extra
    r = f(0, [], [], vals, [], [], [])
    return [float(r[k]) for k in range(r.numel())]


def vec(n: int, i: int) -> int:
    """
    pre: n in (1, 2, 3) and pin(n=n)
    post: _ == 1
    """
    t = _inst(T_VEC[n], {7001: i})
    try:
        m = generator.generate(t, "M", {})
    except Exception:
        return 1 if (i < 1 or i > n) else 0
    if i < 1 or i > n:
        return 0
    r = _residual(m, n)
    return 1 if r == [-PRIMES[i - 1]] else 0


def mat(i: int, j: int) -> int:
    """
    post: _ == 1
    """
    t = _inst(T_MAT, {7001: i, 7002: j})
    ok = 1 <= i <= 2 and 1 <= j <= 3
    try:
        m = generator.generate(t, "M", {})
    except Exception:
        return 0 if ok else 1
    if not ok:
        return 0
    f = m.dae_residual_function
    # A elements column-major: A[r,c] at c*2+r ; value = PRIMES index
    r = f(0, [], [], PRIMES[:6] + [0.0], [], [], [])
    return 1 if float(r[0]) == -PRIMES[(j - 1) * 2 + (i - 1)] else 0


def scalar(i: int) -> int:
    """
    post: _ == 1
    """
    t = _inst(T_SCAL, {7001: i})
    try:
        generator.generate(t, "M", {})
    except Exception:
        return 1
    return 0


def nested(i: int, j: int) -> int:
    """
    post: _ == 1
    """
    t = _inst(T_NEST, {7001: i, 7002: j})
    ok = 1 <= i <= 2 and 1 <= j <= 3
    try:
        m = generator.generate(t, "M", {})
    except Exception:
        return 0 if ok else 1
    if not ok:
        return 0
    f = m.dae_residual_function
    r = f(0, [], [], PRIMES[:6] + [0.0], [], [], [])
    # q.w is 2x3: element (i,j) column-major
    return 1 if float(r[0]) == -PRIMES[(j - 1) * 2 + (i - 1)] else 0


def slice2(n: int, a: int, b: int) -> int:
    """
    pre: n in (1, 2, 3) and pin(n=n, a=a) and -3 <= a <= n + 3 and -3 <= b <= n + 3
    post: _ == 1
    """
    t = _inst(T_SLICE[n], {7001: a, 7002: b})
    empty = b < a
    outside = (not empty) and (a < 1 or b > n)
    try:
        m = generator.generate(t, "M", {})
    except Exception:
        return 1 if (outside or empty) else 0
    if outside:
        return 0
    if empty:
        # a:b with b < a is Modelica's empty selection; sum({}) over it is C11's business (on a size-1
        # array CasADi's sum of a 0x1 matrix makes the whole equation vanish) - only "no element selected"
        # is demanded here
        f = m.dae_residual_function
        if f.n_out() == 0 or f.numel_out(0) == 0:
            return 1
    r = _residual(m, n, y=1000.0)
    exp = 0.0
    k = a
    while k <= b:  # empty range: y = sum({}) = 0
        exp += PRIMES[k - 1]
        k += 1
    return 1 if r == [1000.0 - exp] else 0


def slice3(a: int, s: int, b: int) -> int:
    """
    pre: -2 <= a <= 7 and -2 <= b <= 7 and 1 <= s <= 3
    post: _ == 1
    """
    t = _inst(T_SLICE3, {7001: a, 7002: b, 7003: s})
    sel = []
    k = a
    while k <= b:
        sel.append(k)
        k += s
    empty = len(sel) == 0
    outside = any(k < 1 or k > 5 for k in sel)
    try:
        m = generator.generate(t, "M", {})
    except Exception:
        return 1 if (outside or empty) else 0
    if outside:
        return 0
    r = _residual(m, 5, y=1000.0)
    exp = 0.0
    for k in sel:
        exp += PRIMES[k - 1]
    return 1 if r == [1000.0 - exp] else 0


def forloop(n: int, a: int, b: int) -> int:
    """
    pre: n in (2, 3) and pin(n=n, a=a) and -2 <= a <= n + 2 and -2 <= b <= n + 2
    post: _ == 1
    """
    a = _concretize(a, -2, n + 2)  # numpy.arange realises loop bounds anyway: fork per value here
    b = _concretize(b, -2, n + 2)
    t = _inst(T_FOR[n], {7001: a, 7002: b})
    empty = b < a
    outside = (not empty) and (a < 1 or b > n)
    try:
        m = generator.generate(t, "M", {})
    except Exception:
        return 1 if outside else 0
    if outside:
        return 0
    f = m.dae_residual_function
    if empty:
        return 1 if f.n_out() == 0 or f.numel_out(0) == 0 else 0
    xs = PRIMES[:n]
    ws = [100.0 * (k + 1) for k in range(n)]
    r = f(0, [], [], xs + ws, [], [], [])
    got = sorted(float(r[k]) for k in range(r.numel()))
    exp = sorted(ws[k - 1] - xs[k - 1] for k in range(a, b + 1))
    return 1 if got == exp else 0


def lhs(i: int) -> int:
    """
    post: _ == 1
    """
    t = _inst(T_LHS, {7001: i})
    try:
        m = generator.generate(t, "M", {})
    except Exception:
        return 1 if (i < 1 or i > 3) else 0
    if i < 1 or i > 3:
        return 0
    r = _residual(m, 3)
    return 1 if r == [PRIMES[i - 1]] else 0


def reach_vec(n: int, i: int) -> int:
    """
    pre: n in (1, 2, 3) and pin(n=n)
    post: _ == 0
    """
    return vec(n, i)
