"""CrossHair harness for C23: subscripts are symbolic integers flowing through the real
generate -> get_component -> get_indexed_symbol -> get_integer."""
import pickle

import casadi as ca

from pymoca import parser, tree
from pymoca.backends.casadi import generator
from vk import chstubs
from vk.chstubs import pin

chstubs.install_format_cut()
chstubs.install_casadi_realizers()
chstubs.silence(generator, tree)

PRIMES = [2.0, 3.0, 5.0, 7.0, 11.0, 13.0]


def _tpl(text):
    return pickle.dumps(parser.parse(text, bypass_cache=True))


class _Subst(tree.TreeListener):
    def __init__(self, m):
        super().__init__()
        self.m = m

    def exitPrimary(self, t):
        if type(t.value) is int and t.value in self.m:
            t.value = self.m[t.value]


def _inst(tpl, m):
    t = pickle.loads(tpl)
    tree.TreeWalker().walk(_Subst(m), t)
    return t


def _vec(n):
    return f"model M\n  Real x[{n}];\n  Real y;\nequation\n  y = x[7001];\nend M;\n"


T_VEC = {n: _tpl(_vec(n)) for n in (1, 2, 3)}
T_MAT = _tpl("model M\n  Real A[2,3];\n  Real y;\nequation\n  y = A[7001,7002];\nend M;\n")
T_SCAL = _tpl("model M\n  Real s;\n  Real y;\nequation\n  y = s[7001];\nend M;\n")
T_NEST = _tpl("model Q\n  Real w[3];\nend Q;\nmodel M\n  Q q[2];\n  Real y;\nequation\n  y = q[7001].w[7002];\nend M;\n")
T_SLICE = {n: _tpl(f"model M\n  Real x[{n}];\n  Real y;\nequation\n  y = sum(x[7001:7002]);\nend M;\n") for n in (1, 2, 3)}
T_SLICE3 = _tpl("model M\n  Real x[5];\n  Real y;\nequation\n  y = sum(x[7001:7003:7002]);\nend M;\n")
T_FOR = {n: _tpl(f"model M\n  Real x[{n}];\n  Real w[{n}];\nequation\n  for i in 7001:7002 loop\n    w[i] = x[i];\n  end for;\nend M;\n") for n in (2, 3)}
T_LHS = _tpl("model M\n  Real x[3];\n  Real y;\nequation\n  x[7001] = y;\nend M;\n")


def _concretize(v, lo, hi):
    for c in range(lo, hi + 1):
        if v == c:
            return c
    return v


def _residual(m, nx, extra=1, y=0.0):
    f = m.dae_residual_function
    vals = PRIMES[:nx] + [y] * extra
    r = f(0, [], [], vals, [], [], [])
    return [float(r[k]) for k in range(r.numel())]


def vec(n: int, i: int) -> int:
    """
    pre: n in (1, 2, 3) and pin(n=n)
    post: _ == 1
    """
    t = _inst(T_VEC[n], {7001: i})
    try:
        m = generator.generate(t, "M", {})
    except Exception:
        return 1 if (i < 1 or i > n) else 0
    if i < 1 or i > n:
        return 0
    r = _residual(m, n)
    return 1 if r == [-PRIMES[i - 1]] else 0


def mat(i: int, j: int) -> int:
    """
    post: _ == 1
    """
    t = _inst(T_MAT, {7001: i, 7002: j})
    ok = 1 <= i <= 2 and 1 <= j <= 3
    try:
        m = generator.generate(t, "M", {})
    except Exception:
        return 0 if ok else 1
    if not ok:
        return 0
    f = m.dae_residual_function
    # A elements column-major: A[r,c] at c*2+r ; value = PRIMES index
    r = f(0, [], [], PRIMES[:6] + [0.0], [], [], [])
    return 1 if float(r[0]) == -PRIMES[(j - 1) * 2 + (i - 1)] else 0


def scalar(i: int) -> int:
    """
    post: _ == 1
    """
    t = _inst(T_SCAL, {7001: i})
    try:
        generator.generate(t, "M", {})
    except Exception:
        return 1
    return 0


def nested(i: int, j: int) -> int:
    """
    post: _ == 1
    """
    t = _inst(T_NEST, {7001: i, 7002: j})
    ok = 1 <= i <= 2 and 1 <= j <= 3
    try:
        m = generator.generate(t, "M", {})
    except Exception:
        return 0 if ok else 1
    if not ok:
        return 0
    f = m.dae_residual_function
    r = f(0, [], [], PRIMES[:6] + [0.0], [], [], [])
    # q.w is 2x3: element (i,j) column-major
    return 1 if float(r[0]) == -PRIMES[(j - 1) * 2 + (i - 1)] else 0


def slice2(n: int, a: int, b: int) -> int:
    """
    pre: n in (1, 2, 3) and pin(n=n, a=a) and -3 <= a <= n + 3 and -3 <= b <= n + 3
    post: _ == 1
    """
    t = _inst(T_SLICE[n], {7001: a, 7002: b})
    empty = b < a
    outside = (not empty) and (a < 1 or b > n)
    try:
        m = generator.generate(t, "M", {})
    except Exception:
        return 1 if (outside or empty) else 0
    if outside:
        return 0
    if empty:
        # a:b with b < a is Modelica's empty selection; sum({}) over it is C11's business (on a size-1
        # array CasADi's sum of a 0x1 matrix makes the whole equation vanish) - only "no element selected"
        # is demanded here
        f = m.dae_residual_function
        if f.n_out() == 0 or f.numel_out(0) == 0:
            return 1
    r = _residual(m, n, y=1000.0)
    exp = 0.0
    k = a
    while k <= b:  # empty range: y = sum({}) = 0
        exp += PRIMES[k - 1]
        k += 1
    return 1 if r == [1000.0 - exp] else 0


def slice3(a: int, s: int, b: int) -> int:
    """
    pre: -2 <= a <= 7 and -2 <= b <= 7 and 1 <= s <= 3
    post: _ == 1
    """
    t = _inst(T_SLICE3, {7001: a, 7002: b, 7003: s})
    sel = []
    k = a
    while k <= b:
        sel.append(k)
        k += s
    empty = len(sel) == 0
    outside = any(k < 1 or k > 5 for k in sel)
    try:
        m = generator.generate(t, "M", {})
    except Exception:
        return 1 if (outside or empty) else 0
    if outside:
        return 0
    r = _residual(m, 5, y=1000.0)
    exp = 0.0
    for k in sel:
        exp += PRIMES[k - 1]
    return 1 if r == [1000.0 - exp] else 0


def forloop(n: int, a: int, b: int) -> int:
    """
    pre: n in (2, 3) and pin(n=n, a=a) and -2 <= a <= n + 2 and -2 <= b <= n + 2
    post: _ == 1
    """
    a = _concretize(a, -2, n + 2)  # numpy.arange realises loop bounds anyway: fork per value here
    b = _concretize(b, -2, n + 2)
    t = _inst(T_FOR[n], {7001: a, 7002: b})
    empty = b < a
    outside = (not empty) and (a < 1 or b > n)
    try:
        m = generator.generate(t, "M", {})
    except Exception:
        return 1 if outside else 0
    if outside:
        return 0
    f = m.dae_residual_function
    if empty:
        return 1 if f.n_out() == 0 or f.numel_out(0) == 0 else 0
    xs = PRIMES[:n]
    ws = [100.0 * (k + 1) for k in range(n)]
    r = f(0, [], [], xs + ws, [], [], [])
    got = sorted(float(r[k]) for k in range(r.numel()))
    exp = sorted(ws[k - 1] - xs[k - 1] for k in range(a, b + 1))
    return 1 if got == exp else 0


def lhs(i: int) -> int:
    """
    post: _ == 1
    """
    t = _inst(T_LHS, {7001: i})
    try:
        m = generator.generate(t, "M", {})
    except Exception:
        return 1 if (i < 1 or i > 3) else 0
    if i < 1 or i > 3:
        return 0
    r = _residual(m, 3)
    return 1 if r == [PRIMES[i - 1]] else 0


def reach_vec(n: int, i: int) -> int:
    """
    pre: n in (1, 2, 3) and pin(n=n)
    post: _ == 0
    """
    return vec(n, i)


# =====================================================================================================
# Extended family (strengthening round): loop-dependent subscript EXPRESSIONS, stepped loop ranges,
# loops over 2-D / nested / scalar symbols, function for-statements, strided and 2-D slices, degenerate
# shapes, subscripts computed from Integer parameters, der(x[i]).
#
# Conventions:
#  * every function returns 1 iff the real generate() behaved as C23 demands for these arguments;
#  * the arguments are CrossHair symbolic integers.  Values that the real code hands to numpy.arange or to
#    a CasADi constant (loop bounds, literals inside a subscript expression) are forked per value over the
#    stated window with _concretize (the real code would realise them at that point anyway); values that
#    only flow through get_integer / the range checks stay symbolic (and unbounded where stated);
#  * arrays are evaluated on DEC = 1, 10, 100, ... so that a sum of selected elements identifies the
#    selected multiset (each element at most 9 times);
#  * _w_<f> is the window predicate: it is the precondition of <f> AND what props/c23.py sweeps concretely
#    after a counterexample, so that the reported case ids do not depend on which witness z3 picks.
# =====================================================================================================
import itertools

DEC = [1.0, 10.0, 100.0, 1000.0, 10000.0, 100000.0, 1000000.0, 10000000.0]
import os

_F = chstubs.PIN.get("f")  # the extended-family function this CrossHair shard runs (set by props/c23.py)
_SHARD = "VERIF_PIN" in os.environ  # vk.chx always sets it for a shard; unset = concrete replay / sweep in the main process


def _want(*names):
    """Parse the templates of an extended-family function only where they are needed: in its own shards, and in
    the main process (replay / sweep), where every template is built."""
    return (not _SHARD) or _F in names


def _call(m, **given):
    """Evaluate the real dae_residual_function; inputs not given are zero vectors of the right size."""
    f = m.dae_residual_function
    if f.n_out() == 0 or f.numel_out(0) == 0:
        return []
    pos = {"x": 1, "der": 2, "alg": 3, "par": 6}
    args = [[0.0] * f.numel_in(k) for k in range(f.n_in())]
    args[0] = 0.0
    for name, vals in given.items():
        k = pos[name]
        if len(vals) != f.numel_in(k):
            raise AssertionError("harness: %s has %d elements, model wants %d" % (name, len(vals), f.numel_in(k)))
        args[k] = list(vals)
    r = f(*chstubs.deep_realize(args))
    return [float(r[k]) for k in range(r.numel())]


def _gen(t):
    """-> model, or None when the real generate() rejects the model."""
    try:
        return generator.generate(t, "M", {})
    except Exception:
        return None


def _gen_c(tpl, mapping):
    """generate() for an instance ALL of whose literals have been forked to concrete values (loop families: the
    real code hands them to numpy.arange / CasADi at once).  Nothing symbolic is left to execute, so CrossHair's
    tracing is switched off for the call (about 500x faster); CrossHair/z3 still enumerate the window."""
    if chstubs.HAVE_CH:
        with chstubs.NoTracing():
            plain = all(type(v) is int for v in mapping.values())
            if plain:
                return _gen(_inst(tpl, mapping))
    return _gen(_inst(tpl, mapping))


# ---- subscript expressions of the loop variable ------------------------------------------------------
IDX_EXPR = {0: "7003 - i", 1: "i + 7003", 2: "7003 * i", 3: "2 * i - 7003", 4: "7003 - 2 * i"}


def _ev(kind, c, i):
    if kind == 0:
        return c - i
    if kind == 1:
        return i + c
    if kind == 2:
        return c * i
    if kind == 3:
        return 2 * i - c
    return c - 2 * i


FOREXPR_N = (1, 2, 3, 4)
if _want("forexpr"):
    T_FOREXPR = {(n, k): _tpl(f"model M\n  Real x[{n}];\nequation\n  for i in 7001:7002 loop\n    x[{e}] = i;\n  end for;\nend M;\n")
                 for n in FOREXPR_N for k, e in IDX_EXPR.items()
                 if chstubs.PIN.get("n", n) == n and chstubs.PIN.get("kind", k) == k}


def _w_forexpr(n, kind, c, a, b):
    return n in FOREXPR_N and 0 <= kind <= 4 and 0 <= c <= n + 4 and 1 <= a <= b <= 3


def forexpr(n: int, kind: int, c: int, a: int, b: int) -> int:
    """
    pre: pin(n=n, kind=kind) and _w_forexpr(n, kind, c, a, b)
    post: _ == 1
    """
    n = _concretize(n, 1, 4)
    kind = _concretize(kind, 0, 4)
    c = _concretize(c, 0, n + 4)
    a = _concretize(a, 1, 3)
    b = _concretize(b, 1, 3)
    m = _gen_c(T_FOREXPR[(n, kind)], {7001: a, 7002: b, 7003: c})
    subs = [_ev(kind, c, i) for i in range(a, b + 1)]
    ok = all(1 <= e <= n for e in subs)
    if m is None:
        return 0 if ok else 1
    if not ok:
        return 0
    got = sorted(_call(m, alg=DEC[:n]))
    exp = sorted(DEC[e - 1] - i for e, i in zip(subs, range(a, b + 1)))
    return 1 if got == exp else 0


# ---- stepped loop ranges a:s:b ------------------------------------------------------------------------
FORSTEP_N = (2, 3, 4)
if _want("forstep"):
    T_FORSTEP = {n: _tpl(f"model M\n  Real x[{n}];\nequation\n  for i in 7001:7003:7002 loop\n    x[i] = i;\n  end for;\nend M;\n")
                 for n in FORSTEP_N if chstubs.PIN.get("n", n) == n}


def _w_forstep(n, s, a, b):
    return n in FORSTEP_N and 1 <= s <= 3 and 0 <= a <= n + 2 and a <= b <= n + 3


def forstep(n: int, s: int, a: int, b: int) -> int:
    """
    pre: pin(n=n, s=s) and _w_forstep(n, s, a, b)
    post: _ == 1
    """
    n = _concretize(n, 2, 4)
    s = _concretize(s, 1, 3)
    a = _concretize(a, 0, n + 2)
    b = _concretize(b, 0, n + 3)
    m = _gen_c(T_FORSTEP[n], {7001: a, 7002: b, 7003: s})
    vals = list(range(a, b + 1, s))
    ok = all(1 <= e <= n for e in vals)
    if m is None:
        return 0 if ok else 1
    if not ok:
        return 0
    got = sorted(_call(m, alg=DEC[:n]))
    exp = sorted(DEC[e - 1] - e for e in vals)
    return 1 if got == exp else 0


# ---- loops over one dimension of a 2-D symbol (plain matrix or array-of-components member) ----------------
def _mix_text(nest, pos, kind):
    e = "i" if kind == 0 else "7003 - i"
    if nest:
        ref = f"q[{e}].w[7004]" if pos == 0 else f"q[7004].w[{e}]"
        return f"model Q\n  Real w[3];\nend Q;\nmodel M\n  Q q[2];\nequation\n  for i in 7001:7002 loop\n    {ref} = i;\n  end for;\nend M;\n"
    ref = f"A[{e}, 7004]" if pos == 0 else f"A[7004, {e}]"
    return f"model M\n  Real A[2,3];\nequation\n  for i in 7001:7002 loop\n    {ref} = i;\n  end for;\nend M;\n"


if _want("formix"):
    T_FORMIX = {(ne, p, k): _tpl(_mix_text(ne, p, k)) for ne in (0, 1) for p in (0, 1) for k in (0, 1)
                if chstubs.PIN.get("nest", ne) == ne and chstubs.PIN.get("pos", p) == p and chstubs.PIN.get("kind", k) == k}


def _w_formix(nest, pos, kind, c, k, a, b):
    if not (nest in (0, 1) and pos in (0, 1)):
        return False
    if kind == 0:  # A[i, k] / A[k, i]: loop range and the constant subscript sweep past both ends
        return c == 0 and 0 <= k <= 4 and 0 <= a <= b <= 4
    if kind == 1:  # A[c - i, k] / A[k, c - i]: descending subscript
        return 2 <= c <= 5 and 1 <= k <= 2 and 1 <= a <= b <= 3
    return False


def formix(nest: int, pos: int, kind: int, c: int, k: int, a: int, b: int) -> int:
    """
    pre: pin(nest=nest, pos=pos, kind=kind) and _w_formix(nest, pos, kind, c, k, a, b)
    post: _ == 1
    """
    nest = _concretize(nest, 0, 1)
    pos = _concretize(pos, 0, 1)
    kind = _concretize(kind, 0, 1)
    c = _concretize(c, 0, 5)
    a = _concretize(a, 0, 4)
    b = _concretize(b, 0, 4)
    k = _concretize(k, 0, 4)
    m = _gen_c(T_FORMIX[(nest, pos, kind)], {7001: a, 7002: b, 7003: c, 7004: k})
    dims = (2, 3)
    subs = [(i if kind == 0 else c - i) for i in range(a, b + 1)]
    ok = all(1 <= e <= dims[pos] for e in subs) and 1 <= k <= dims[1 - pos]
    if m is None:
        return 0 if ok else 1
    if not ok:
        return 0
    got = sorted(_call(m, alg=DEC[:6]))
    exp = []
    for e, i in zip(subs, range(a, b + 1)):
        r, col = (e, k) if pos == 0 else (k, e)
        exp.append(DEC[(col - 1) * 2 + (r - 1)] - i)
    return 1 if got == sorted(exp) else 0


# ---- loop-variable subscript on a scalar: always an error ---------------------------------------------------
if _want("forscalar"):
    T_FORSCALAR = {k: _tpl(f"model M\n  Real s;\nequation\n  for i in 7001:7002 loop\n    s[{e}] = i;\n  end for;\nend M;\n")
                   for k, e in ((0, "i"), (1, "7003 - i"), (2, "i + 7003"))}


def _w_forscalar(kind, c, a, b):
    return 0 <= kind <= 2 and 0 <= a <= b <= 3 and ((kind == 0 and c == 0) or (kind > 0 and 0 <= c <= 2))


def forscalar(kind: int, c: int, a: int, b: int) -> int:
    """
    pre: pin(kind=kind) and _w_forscalar(kind, c, a, b)
    post: _ == 1
    """
    kind = _concretize(kind, 0, 2)
    c = _concretize(c, 0, 2)
    a = _concretize(a, 0, 3)
    b = _concretize(b, 0, 3)
    m = _gen_c(T_FORSCALAR[kind], {7001: a, 7002: b, 7003: c})
    return 1 if m is None else 0


# ---- for-statement in a function's algorithm section ---------------------------------------------------------
if _want("forfunc"):
    T_FORFUNC = {k: _tpl("function f\n  input Real x[3];\n  output Real y;\nalgorithm\n  y := 0;\n  for i in 7001:7002 loop\n"
                         f"    y := y + x[{e}];\n  end for;\nend f;\nmodel M\n  Real x[3];\n  Real y;\nequation\n  y = f(x);\nend M;\n")
                 for k, e in ((0, "i"), (1, "7003 - i")) if chstubs.PIN.get("kind", k) == k}


def _w_forfunc(kind, c, a, b):
    return ((kind == 0 and c == 0 and 0 <= a <= b <= 5) or (kind == 1 and 2 <= c <= 5 and 1 <= a <= b <= 3))


def forfunc(kind: int, c: int, a: int, b: int) -> int:
    """
    pre: pin(kind=kind) and _w_forfunc(kind, c, a, b)
    post: _ == 1
    """
    kind = _concretize(kind, 0, 1)
    c = _concretize(c, 0, 5)
    a = _concretize(a, 0, 5)
    b = _concretize(b, 0, 5)
    m = _gen_c(T_FORFUNC[kind], {7001: a, 7002: b, 7003: c})
    subs = [(i if kind == 0 else c - i) for i in range(a, b + 1)]
    ok = all(1 <= e <= 3 for e in subs)
    if m is None:
        return 0 if ok else 1
    if not ok:
        return 0
    got = _call(m, alg=DEC[:3] + [0.0])
    return 1 if got == [-sum(DEC[e - 1] for e in subs)] else 0


# ---- strided constant slices on several sizes (quick-tier companion of slice3) -----------------------------
SLICE3N_N = (1, 2, 3, 4)
if _want("slice3n"):
    T_SLICE3N = {n: _tpl(f"model M\n  Real x[{n}];\n  Real y;\nequation\n  y = sum(x[7001:7003:7002]);\nend M;\n")
                 for n in SLICE3N_N if chstubs.PIN.get("n", n) == n}


def _w_slice3n(n, s, a, b):
    return n in SLICE3N_N and 1 <= s <= 3 and -1 <= a <= n + 2 and -1 <= b <= n + 4


def _stepped(a, s, b):
    sel = []
    k = a
    while k <= b:
        sel.append(k)
        k += s
    return sel


def slice3n(n: int, s: int, a: int, b: int) -> int:
    """
    pre: pin(n=n, s=s) and _w_slice3n(n, s, a, b)
    post: _ == 1
    """
    n = _concretize(n, 1, 4)
    s = _concretize(s, 1, 3)  # Python's range() needs real integers: forked per value, generate() untraced
    a = _concretize(a, -1, n + 2)
    b = _concretize(b, -1, n + 4)
    sel = _stepped(a, s, b)
    empty = len(sel) == 0
    outside = any(k < 1 or k > n for k in sel)
    m = _gen_c(T_SLICE3N[n], {7001: a, 7002: b, 7003: s})
    if m is None:
        return 1 if (outside or empty) else 0
    if outside:
        return 0
    got = _call(m, alg=DEC[:n] + [0.0])
    if empty:  # "no element selected" (the equation may vanish altogether on a size-1 array, see slice2)
        return 1 if got in ([], [0.0]) else 0
    return 1 if got == [-sum(DEC[k - 1] for k in sel)] else 0


# ---- slices (plain and strided) in one dimension of a matrix, constant subscript in the other ---------------
if _want("mslice"):
    T_MSLICE = {p: _tpl("model M\n  Real A[2,3];\n  Real y;\nequation\n  y = sum(A[%s]);\nend M;\n" % sub)
                for p, sub in ((0, "7001:7003:7002, 7004"), (1, "7004, 7001:7003:7002"), (2, "7001:7002, 7004"), (3, "7004, 7001:7002"))
                if chstubs.PIN.get("pos", p % 2) == p % 2}


def _w_mslice(pos, s, r, a, b):
    d = 2 if pos == 0 else 3
    return pos in (0, 1) and 0 <= s <= 3 and 0 <= a <= d + 1 and 0 <= b <= d + 2 and 0 <= r <= 4  # s == 0: the unstrided spelling a:b


def mslice(pos: int, s: int, r: int, a: int, b: int) -> int:
    """
    pre: pin(pos=pos, s=s) and _w_mslice(pos, s, r, a, b)
    post: _ == 1
    """
    pos = _concretize(pos, 0, 1)
    s = _concretize(s, 0, 3)
    dims = (2, 3)
    a = _concretize(a, 0, 4)
    b = _concretize(b, 0, 5)
    r = _concretize(r, 0, 4)
    sel = _stepped(a, s if s > 0 else 1, b)
    empty = len(sel) == 0
    outside = any(k < 1 or k > dims[pos] for k in sel) or r < 1 or r > dims[1 - pos]
    m = _gen_c(T_MSLICE[pos if s > 0 else pos + 2], {7001: a, 7002: b, 7003: s, 7004: r})
    if m is None:
        return 1 if (outside or empty) else 0
    if outside:
        return 0
    got = _call(m, alg=DEC[:6] + [0.0])
    if empty:
        return 1 if all(g == 0.0 for g in got) else 0
    exp = 0.0
    for k in sel:
        row, col = (k, r) if pos == 0 else (r, k)
        exp += DEC[(col - 1) * 2 + (row - 1)]
    # sum() of a row keeps one residual entry per element (C11's subject); every selected element must occur once
    return 1 if (len(got) >= 1 and -sum(got) == exp) else 0


# ---- whole-dimension slices A[:, r] / A[r, :] ------------------------------------------------------------
if _want("mcolon"):
    T_MCOLON = {0: _tpl("model M\n  Real A[2,3];\n  Real y;\nequation\n  y = sum(A[:, 7004]);\nend M;\n"),
                1: _tpl("model M\n  Real A[2,3];\n  Real y;\nequation\n  y = sum(A[7004, :]);\nend M;\n")}


def _w_mcolon(pos, r):
    return pos in (0, 1)


def mcolon(pos: int, r: int) -> int:
    """
    pre: _w_mcolon(pos, r)
    post: _ == 1
    """
    pos = _concretize(pos, 0, 1)
    dims = (2, 3)
    m = _gen(_inst(T_MCOLON[pos], {7004: r}))
    ok = 1 <= r <= dims[1 - pos]
    if m is None:
        return 0 if ok else 1
    if not ok:
        return 0
    got = _call(m, alg=DEC[:6] + [0.0])
    exp = 0.0
    for k in range(1, dims[pos] + 1):
        row, col = (k, r) if pos == 0 else (r, k)
        exp += DEC[(col - 1) * 2 + (row - 1)]
    return 1 if (len(got) >= 1 and -sum(got) == exp) else 0


# ---- degenerate matrix shapes (a single element, a single row, a single column) -----------------------------
MATN_SHAPES = {0: (1, 1), 1: (1, 3), 2: (3, 1), 3: (2, 2)}
if _want("matn"):
    T_MATN = {k: _tpl(f"model M\n  Real A[{r},{c}];\n  Real y;\nequation\n  y = A[7001,7002];\nend M;\n")
              for k, (r, c) in MATN_SHAPES.items() if chstubs.PIN.get("sh", k) == k}


def _w_matn(sh, i, j):
    return sh in MATN_SHAPES


def matn(sh: int, i: int, j: int) -> int:
    """
    pre: pin(sh=sh) and _w_matn(sh, i, j)
    post: _ == 1
    """
    sh = _concretize(sh, 0, 3)
    rows, cols = MATN_SHAPES[sh]
    m = _gen(_inst(T_MATN[sh], {7001: i, 7002: j}))
    ok = 1 <= i <= rows and 1 <= j <= cols
    if m is None:
        return 0 if ok else 1
    if not ok:
        return 0
    got = _call(m, alg=DEC[:rows * cols] + [0.0])
    return 1 if got == [-DEC[(j - 1) * rows + (i - 1)]] else 0


# ---- subscript shapes that can never be valid: slices / several subscripts on a scalar, too many subscripts ----
REJECT = {0: ("Real s;", "sum(s[7001:7002])"), 1: ("Real s;", "sum(s[:])"), 2: ("Real s;", "s[7001,7002]"),
          3: ("Real x[3];", "x[7001,7002]"), 4: ("Real A[2,3];", "A[7001,7002,7001]"), 5: ("Real s;", "sum(s[7001:2:7002])"),
          6: ("Real x[3];", "sum(x[7001:7002,7001])")}
if _want("reject"):
    T_REJECT = {k: _tpl(f"model M\n  {d}\n  Real y;\nequation\n  y = {e};\nend M;\n") for k, (d, e) in REJECT.items()}


def _w_reject(kind, i, j):
    return kind in (1, 2, 3, 4) or (kind in (0, 5, 6) and -2 <= i <= 4 and -2 <= j <= 4)


def reject(kind: int, i: int, j: int) -> int:
    """
    pre: _w_reject(kind, i, j)
    post: _ == 1
    """
    kind = _concretize(kind, 0, 6)
    if kind in (0, 5, 6):  # a slice object ends up in the error message: its bounds cannot stay symbolic
        i = _concretize(i, -2, 4)
        j = _concretize(j, -2, 4)
    m = _gen_c(T_REJECT[kind], {7001: i, 7002: j})  # traced when i, j are still symbolic
    return 1 if m is None else 0


# ---- subscripts computed from an Integer parameter / a constant expression ------------------------------------
PSUB = {0: "x[k]", 1: "x[k + 7002]", 2: "x[k - 7002]", 3: "x[7001 + 7002]", 4: "sum(x[k:k + 7002])", 5: "sum(x[7002:k])", 6: "x[2 * k - 7002]"}
if _want("psub"):
    T_PSUB = {q: _tpl(f"model M\n  parameter Integer k = 7001;\n  Real x[3];\n  Real y;\nequation\n  y = {e};\nend M;\n")
              for q, e in PSUB.items() if chstubs.PIN.get("kind", q) == q}


def _w_psub(kind, k, d):
    if kind == 0:
        return d == 0  # plain x[k]: k ranges over ALL integers
    return 1 <= kind <= 6 and 0 <= k <= 5 and 0 <= d <= 4


def psub(kind: int, k: int, d: int) -> int:
    """
    pre: pin(kind=kind) and _w_psub(kind, k, d)
    post: _ == 1
    """
    kind = _concretize(kind, 0, 6)
    if kind != 0:  # the literals of an expression become CasADi constants
        k = _concretize(k, 0, 5)
        d = _concretize(d, 0, 4)
    m = _gen_c(T_PSUB[kind], {7001: k, 7002: d})  # traced for kind 0 (k symbolic)
    if kind == 4:
        sel = list(range(k, k + d + 1))
    elif kind == 5:
        sel = list(range(d, k + 1))
    else:
        sel = [{0: k, 1: k + d, 2: k - d, 3: k + d, 6: 2 * k - d}[kind]]
    empty = len(sel) == 0
    outside = any(e < 1 or e > 3 for e in sel)
    if m is None:
        return 1 if (outside or empty) else 0
    if outside:
        return 0
    got = _call(m, alg=DEC[:3] + [0.0], par=[float(k)])
    if empty:
        return 1 if got in ([], [0.0]) else 0
    return 1 if got == [-sum(DEC[e - 1] for e in sel)] else 0


# ---- der(x[i]) ---------------------------------------------------------------------------------------------
if _want("derv"):
    T_DERV = _tpl("model M\n  Real x[3];\n  Real y;\nequation\n  der(x[7001]) = y;\nend M;\n")


def _w_derv(i):
    return True


def derv(i: int) -> int:
    """
    post: _ == 1
    """
    m = _gen(_inst(T_DERV, {7001: i}))
    ok = 1 <= i <= 3
    if m is None:
        return 0 if ok else 1
    if not ok:
        return 0
    got = _call(m, x=[0.0, 0.0, 0.0], der=DEC[:3], alg=[0.0])
    return 1 if got == [DEC[i - 1]] else 0


# ---- concrete sweep of a shard's window (used by props/c23.py after a counterexample; no CrossHair) -----------
SWEEP_BOX = range(-2, 10)
WINDOWED = {"forexpr": (_w_forexpr, ("n", "kind", "c", "a", "b")), "forstep": (_w_forstep, ("n", "s", "a", "b")),
            "formix": (_w_formix, ("nest", "pos", "kind", "c", "k", "a", "b")), "forscalar": (_w_forscalar, ("kind", "c", "a", "b")),
            "forfunc": (_w_forfunc, ("kind", "c", "a", "b")), "slice3n": (_w_slice3n, ("n", "s", "a", "b")),
            "mslice": (_w_mslice, ("pos", "s", "r", "a", "b")), "mcolon": (_w_mcolon, ("pos", "r")), "matn": (_w_matn, ("sh", "i", "j")),
            "reject": (_w_reject, ("kind", "i", "j")), "psub": (_w_psub, ("kind", "k", "d")), "derv": (_w_derv, ("i",))}


def sweep(func, pinned):
    """All argument tuples of `func` inside its window (unbounded arguments: inside SWEEP_BOX) that agree with
    the shard's pinned values and for which the harness function does not return 1."""
    pred, names = WINDOWED[func]
    axes = [[pinned[nm]] if nm in pinned else list(SWEEP_BOX) for nm in names]
    bad = []
    for args in itertools.product(*axes):
        if not pred(*args):
            continue
        try:
            res = globals()[func](*args)
        except Exception as e:  # never on the unchanged tree
            res = repr(e)
        if res != 1:
            bad.append((args, res))
    return bad


def describe(func, args):
    """The Modelica fragment an argument tuple of an extended-family function stands for (for reports)."""
    def sub(text, m):
        for k, v in m.items():
            text = text.replace(str(k), str(v))
        return text

    try:
        if func == "forexpr":
            n, kind, c, a, b = args
            return f"Real x[{n}]; for i in {a}:{b} loop x[{sub(IDX_EXPR[kind], {7003: c})}] = i"
        if func == "forstep":
            n, s, a, b = args
            return f"Real x[{n}]; for i in {a}:{s}:{b} loop x[i] = i"
        if func == "formix":
            nest, pos, kind, c, k, a, b = args
            body = _mix_text(nest, pos, kind).split("loop\n")[1].split(";")[0].strip()
            return ("Q q[2] (Real w[3]); " if nest else "Real A[2,3]; ") + f"for i in {a}:{b} loop " + sub(body, {7003: c, 7004: k})
        if func == "forscalar":
            kind, c, a, b = args
            return f"Real s; for i in {a}:{b} loop s[{sub(('i', '7003 - i', 'i + 7003')[kind], {7003: c})}] = i"
        if func == "forfunc":
            kind, c, a, b = args
            return f"function: input Real x[3]; for i in {a}:{b} loop y := y + x[{'i' if kind == 0 else str(c) + ' - i'}]"
        if func == "slice3n":
            n, s, a, b = args
            return f"Real x[{n}]; y = sum(x[{a}:{s}:{b}])"
        if func == "mslice":
            pos, s, r, a, b = args
            sl = f"{a}:{s}:{b}" if s > 0 else f"{a}:{b}"
            return "Real A[2,3]; y = sum(A[" + (f"{sl}, {r}" if pos == 0 else f"{r}, {sl}") + "])"
        if func == "mcolon":
            pos, r = args
            return "Real A[2,3]; y = sum(A[" + (f":, {r}" if pos == 0 else f"{r}, :") + "])"
        if func == "matn":
            sh, i, j = args
            return "Real A[%d,%d]; y = A[%d,%d]" % (MATN_SHAPES[sh] + (i, j))
        if func == "reject":
            kind, i, j = args
            return REJECT[kind][0] + " y = " + sub(REJECT[kind][1], {7001: i, 7002: j})
        if func == "psub":
            kind, k, d = args
            return f"parameter Integer k = {k}; Real x[3]; y = " + sub(PSUB[kind], {7001: k, 7002: d})
        if func == "derv":
            return f"Real x[3]; der(x[{args[0]}]) = y"
    except Exception:
        pass
    return ""
