"""C01 - the parse cache is transparent over any cache history (bounded exhaustive step exploration).

One step of the REAL parser.parse against a REAL sqlite file from every pre-state of a bounded space - rows
(which text/version they are keyed by, intact or damaged payload, age), table layouts, presence of the
metadata keys, a corrupt database file, whether this process already initialised the database
(parse.initialized_dbs), the pymoca version (current / other / dirty), expiration and update flags, and
which text is parsed (two valid texts differing only in trailing whitespace, a text with a syntax error).
Pre-states satisfy the invariant that every INTACT row keyed by (sha256(t), v) holds parse(t) != None -
exactly what the code itself ever writes; damaged rows, layouts and corruption are unconstrained (they are
the faults).  Assertions: no exception; the result is structurally identical to an uncached parse (None
exactly for the syntax error); the invariant holds again afterwards (so one step covers histories of any
length), in particular no None payload is stored.

z3 enumerates the pre-state tuples (all models of the range constraints and the invariant); sqlite3 and
pickle are C code, so every step runs concretely - there is no value-level symbolic execution here (the
design's SQL-interpreting stub was dropped: the real database is the more faithful environment).
Thorough adds two-step histories (second parse after damage / version change / reload)."""
import hashlib
import json
import os
import pickle
import shutil
import sqlite3
import sys
import tempfile
import time
import traceback

from vk.report import Collector, Report, run_parallel, std_args

PROP = "C01"
T0 = "model A\n  Real x;\nequation\n  x = 1;\nend A;\n"
TEXTS = {"T0": T0, "T0w": T0 + "  \n", "T1": "model B\n  Real y(start = 2);\nequation\n  der(y) = -y;\nend B;\n",
         "B0": "model A\n  Real x\nequation\n  x = ;\nend A;\n",
         # the same lines with LF / CRLF line ends: the description string spans two lines, so the trees differ
         "T2": 'model D "first line\nsecond line"\n  Real z = 3;\nend D;\n',
         "T2c": 'model D "first line\r\nsecond line"\r\n  Real z = 3;\r\nend D;\r\n'}
CUR, OLD = "9.9.9", "9.9.8"
PAYLOADS = ["valid", "garbage", "truncated", "missing-class", "missing-module", "empty-stack", "bad-utf8", "bad-int", "bad-call"]
AGES = {"expired": -40 * 86400, "day-old": -2 * 86400, "recent": -3600}
MODELS_OK = "CREATE TABLE models (txt_hash TEXT, pymoca_version TEXT, data BLOB, last_hit TIMESTAMP INTEGER, PRIMARY KEY (txt_hash, pymoca_version))"
MODELS_WRONG = "CREATE TABLE models (txt_hash TEXT, data BLOB, last_hit INTEGER, PRIMARY KEY (txt_hash))"
META_OK = "CREATE TABLE metadata (key TEXT, value TEXT, PRIMARY KEY (key))"
META_WRONG = "CREATE TABLE metadata (key TEXT, value TEXT, extra TEXT, PRIMARY KEY (key))"

_REF = {}


def ref_parse(name):
    from pymoca import ast, parser
    if name not in _REF:
        t = parser._parse(TEXTS[name])
        _REF[name] = (None if t is None else json.dumps(ast.Node.to_json(t), sort_keys=True, default=str), None if t is None else pickle.dumps(t))
    return _REF[name]


def sha(name):
    return hashlib.sha256(TEXTS[name].encode("utf-8")).hexdigest()


def payload(kind, text_name):
    good = ref_parse(text_name)[1] or ref_parse("T0")[1]  # a text with a syntax error has no tree of its own
    if kind == "valid":
        return good
    if kind == "garbage":
        return b"\x00\x01not a pickle at all"
    if kind == "truncated":
        return good[: len(good) // 2]
    if kind == "missing-class":
        return b"cpymoca.ast\nNoSuchClassAnymore\n."
    if kind == "missing-module":
        return b"cpymoca_module_that_was_removed\nX\n."
    if kind == "bad-utf8":
        return b"\x80\x04\x8c\x02\xff\xfe."          # a rotten byte inside a string: UnicodeDecodeError
    if kind == "bad-int":
        return b"I12x4\n."                           # a damaged integer: ValueError
    if kind == "bad-call":
        return b"cbuiltins\nlen\n(tR."               # a constructor call that no longer fits: TypeError
    return b"."  # STOP on an empty stack


def _two_row_db(path, order):
    conn = sqlite3.connect(path)
    c = conn.cursor()
    c.execute(MODELS_OK)
    c.execute(META_OK)
    now = time.time_ns() // 1000
    c.execute("INSERT INTO metadata VALUES ('created_at', ?)", (now - 10 ** 9,))
    c.execute("INSERT INTO metadata VALUES ('last_prune', ?)", (now - 10 ** 8,))
    for tname in order:
        c.execute("INSERT INTO models VALUES (?, ?, ?, ?)", (sha(tname), CUR, payload("valid", tname), now - 3600 * 10 ** 6))
    conn.commit()
    root = c.execute("SELECT rootpage FROM sqlite_master WHERE name='sqlite_autoindex_models_1'").fetchone()[0]
    page = c.execute("PRAGMA page_size").fetchone()[0]
    conn.close()
    return root, page


def build_index_mismatch(path):
    """A well-formed SQLite file whose primary-key index disagrees with the table: the index page of a database
    that inserted (T1, T0) is spliced into one that inserted (T0, T1), so the index sends T0's key to T1's row."""
    other = path + ".other"
    root, page = _two_row_db(path, ["T0", "T1"])
    root2, page2 = _two_row_db(other, ["T1", "T0"])
    with open(other, "rb") as f:
        f.seek((root2 - 1) * page2)
        blob = f.read(page2)
    with open(path, "r+b") as f:
        f.seek((root - 1) * page)
        f.write(blob)
    os.remove(other)


def build_db(path, st):
    if st["corrupt"] == 2:
        build_index_mismatch(path)
        return
    if st["corrupt"]:
        with open(path, "wb") as f:
            f.write(b"SQLite format 3\x00" + b"\xde\xad\xbe\xef" * 300)
        return
    if st["models"] == "nofile":
        return
    conn = sqlite3.connect(path)
    c = conn.cursor()
    if st["models"] == "ok":
        c.execute(MODELS_OK)
    elif st["models"] == "wrong":
        c.execute(MODELS_WRONG)
    if st["meta"] in ("ok", "nokeys"):
        c.execute(META_OK)
        if st["meta"] == "ok":
            now = time.time_ns() // 1000
            c.execute("INSERT INTO metadata VALUES ('created_at', ?)", (now - 10 ** 9,))
            c.execute("INSERT INTO metadata VALUES ('last_prune', ?)", (now - 10 ** 8,))
    elif st["meta"] == "wrong":
        c.execute(META_WRONG)
    if st["models"] == "ok":
        now = time.time_ns() // 1000
        for row in st["rows"]:
            tname, ver, kind, age = row
            c.execute("INSERT OR REPLACE INTO models VALUES (?, ?, ?, ?)", (sha(tname), ver, payload(kind, tname), now + AGES[age] * 10 ** 6))
    conn.commit()
    conn.close()


def check_post(path, col, case, st):
    """Invariant after the step: correct layouts, every intact row holds the parse of its key's text, never None."""
    try:
        conn = sqlite3.connect(path)
        c = conn.cursor()
        rows = c.execute("SELECT txt_hash, pymoca_version, data FROM models").fetchall()
        conn.close()
    except Exception as e:
        col.violation(case + ":post-db-unusable", f"after the step the cache database cannot be read: {type(e).__name__}: {e}", {"state": st})
        return
    by_hash = {sha(n): n for n in TEXTS}
    for h, v, data in rows:
        try:
            obj = pickle.loads(data)
        except Exception:
            continue  # damaged rows may remain
        if obj is None:
            col.violation(case + ":none-stored", "a failed parse (None) is stored in the cache", {"state": st})
            continue
        n = by_hash.get(h)
        if n is None:
            continue
        from pymoca import ast
        if ref_parse(n)[0] is None or json.dumps(ast.Node.to_json(obj), sort_keys=True, default=str) != ref_parse(n)[0]:
            col.violation(case + ":wrong-tree-stored", f"the row keyed by text {n} (version {v}) holds a tree that is not the parse of that text", {"state": st})


def cause(st):
    """Class-level signature of what is unusual in the pre-state (stable case ids)."""
    parts = []
    if st["corrupt"]:
        parts.append("corrupt-file" if st["corrupt"] == 1 else "index-disagrees-with-table")
    if st["models"] != "ok":
        parts.append("models-" + st["models"])
    if st["meta"] != "ok":
        parts.append("meta-" + st["meta"])
    if st["init"]:
        parts.append("already-initialised")
    for tname, ver, kind, age in st["rows"]:
        if tname == st["p"] and ver == st["version"].replace(".dirty", "") and kind != "valid":
            parts.append("hit-row-" + kind)
    if st["version"].endswith(".dirty"):
        parts.append("dirty")
    return "+".join(parts) or "plain"


def step(col, st, d):
    """Run one parse() from pre-state st in directory d."""
    import pymoca
    from pymoca import ast, parser
    path = os.path.join(d, "cache.db")
    for f in os.listdir(d):
        os.remove(os.path.join(d, f))
    build_db(path, st)
    from pathlib import Path
    full = Path(d) / "cache.db"
    parser.parse.initialized_dbs = {full} if st["init"] else set()
    pymoca.__version__ = st["version"]
    case = f"step:{cause(st)}"
    try:
        got = parser.parse(TEXTS[st["p"]], model_cache_folder=Path(d), cache_db="cache.db", cache_expiration_days=st["exp"],
                           always_update_last_hit=st["upd"])
    except Exception as e:
        col.violation(case + ":raises:" + type(e).__name__, f"parse() raises {type(e).__name__}: {str(e)[:100]} from pre-state [{cause(st)}]", {"state": st})
        return
    want = ref_parse(st["p"])[0]
    gj = None if got is None else json.dumps(ast.Node.to_json(got), sort_keys=True, default=str)
    if gj != want:
        col.violation(case + ":wrong-result", f"parse({st['p']}) returns {'None' if got is None else 'a tree'} that differs from the uncached parse "
                      f"({'None' if want is None else 'a tree'}) from pre-state [{cause(st)}]", {"state": st})
    if not st["version"].endswith(".dirty"):
        check_post(path, col, case, st)


def states(tier):
    """Pre-states, enumerated by z3 from the range constraints + invariant."""
    from vk.allsat import all_models
    P = ["T0", "T0w", "B0", "T2c"]
    KEYTEXT = ["same", "other"]            # row 1 keyed by the parsed text / by another text
    VERS = [CUR, OLD]
    ROW2 = ["none", "same-text-other-version", "other-text-expired"]
    MODELS = ["ok", "wrong", "missing", "nofile"]
    META = ["ok", "nokeys", "wrong", "missing"]
    names = ["p", "r1", "k1", "v1", "pl1", "ag1", "r2", "models", "meta", "init", "exp", "upd", "ver", "corrupt"]
    rng = {"p": (0, 3), "r1": (0, 1), "k1": (0, 1), "v1": (0, 1), "pl1": (0, 8), "ag1": (0, 2), "r2": (0, 2), "models": (0, 3), "meta": (0, 3),
           "init": (0, 1), "exp": (0, 1), "upd": (0, 1), "ver": (0, 2), "corrupt": (0, 2)}
    import z3

    def cons(v):
        c = []
        # rows only exist in a models table of the right layout; normalise unused dimensions
        no_rows = z3.Or(v["models"] != 0, v["corrupt"] != 0)
        c.append(z3.Implies(no_rows, z3.And(v["r1"] == 0, v["r2"] == 0)))
        c.append(z3.Implies(v["r1"] == 0, z3.And(v["k1"] == 0, v["v1"] == 0, v["pl1"] == 0, v["ag1"] == 0, v["r2"] == 0)))
        c.append(z3.Implies(v["corrupt"] != 0, z3.And(v["models"] == 0, v["meta"] == 0)))
        c.append(z3.Implies(v["models"] == 3, v["meta"] == 3))  # no file at all
        # an index that disagrees with its table is only detectable by the first-use integrity check
        c.append(z3.Implies(v["corrupt"] == 2, v["init"] == 0))
        # invariant: an intact row never belongs to a text with a syntax error
        c.append(z3.Implies(z3.And(v["p"] == 2, v["r1"] == 1, v["k1"] == 0), v["pl1"] != 0))
        # dirty version / flags only matter with a usable table: keep them to the plain-layout states
        c.append(z3.Implies(z3.Or(v["models"] != 0, v["meta"] != 0, v["corrupt"] != 0), z3.And(v["exp"] == 1, v["upd"] == 0)))
        c.append(z3.Implies(v["ver"] == 2, z3.And(v["exp"] == 1, v["upd"] == 0, v["r2"] == 0)))
        if tier == "quick":
            c.append(z3.Implies(v["r2"] != 0, z3.And(v["pl1"] <= 1, v["upd"] == 0)))
            # damaged payload kinds beyond the first two: only as a recent row of the current version, default flags
            c.append(z3.Implies(v["pl1"] >= 2, z3.And(v["ag1"] == 2, v["v1"] == 0, v["upd"] == 0, v["exp"] == 1, v["ver"] == 0)))
        return z3.And(c)
    out = []
    for t in all_models(names, rng, cons):
        v = dict(zip(names, t))
        p = P[v["p"]]
        other = {"T0": "T0w", "T2c": "T2"}.get(p, "T1")  # the "other" text is the closest neighbour of the parsed one
        rows = []
        if v["r1"]:
            rows.append((p if v["k1"] == 0 else other, VERS[v["v1"]], PAYLOADS[v["pl1"]], list(AGES)[v["ag1"]]))
            if v["r2"] == 1:
                rows.append((rows[0][0], VERS[1 - v["v1"]], "valid" if rows[0][0] != "B0" else "garbage", "recent"))
            elif v["r2"] == 2:
                rows.append(("T1" if rows[0][0] != "T1" else "T0", CUR, "valid", "expired"))
        out.append(dict(p=p, rows=rows, models=MODELS[v["models"]], meta=META[v["meta"]], init=bool(v["init"]), exp=[0, 30][v["exp"]], upd=bool(v["upd"]),
                        version=[CUR, OLD, CUR + ".dirty"][v["ver"]], corrupt=v["corrupt"]))
    return out


def work(chunk):
    import logging
    logging.disable(logging.CRITICAL)
    col = Collector()
    d = tempfile.mkdtemp(prefix="c01_")
    import pymoca
    keep = pymoca.__version__
    try:
        for st in chunk:
            if "seq" in st:
                sequence(col, st, d)
            else:
                step(col, st, d)
            col.bump("steps")
        if chunk:
            col.sample({"pre_state": {k: v for k, v in chunk[0].items()}}, 1)
    except Exception:
        col.harness_error(traceback.format_exc()[-1200:])
    finally:
        pymoca.__version__ = keep
        shutil.rmtree(d, ignore_errors=True)
    return col


def sequence(col, st, d):
    """Two parse() calls in one process with an event in between (thorough): damage after initialisation,
    version change, module reload, second text."""
    import pymoca
    from pathlib import Path
    from pymoca import ast, parser
    for f in os.listdir(d):
        os.remove(os.path.join(d, f))
    path = os.path.join(d, "cache.db")
    parser.parse.initialized_dbs = set()
    pymoca.__version__ = CUR
    ev, p1, p2 = st["seq"][:3]
    style = st["seq"][3] if len(st["seq"]) > 3 else "absolute"
    case = f"seq:{p1};{ev};{p2}" + ("" if style == "absolute" else f";folder-{style}")
    folder = Path(d)
    cwd = os.getcwd()
    if style == "relative":
        os.chdir(d)
        folder = Path(".")
    elif style == "symlink":
        link = d + "_link"
        if os.path.islink(link):
            os.remove(link)
        os.symlink(d, link)
        folder = Path(link)
    try:
        parser.parse(TEXTS[p1], model_cache_folder=folder, cache_db="cache.db")
        if ev == "corrupt-file":
            open(path, "wb").write(b"SQLite format 3\x00" + b"\xde\xad\xbe\xef" * 300)
        elif ev == "drop-models":
            c = sqlite3.connect(path); c.execute("DROP TABLE models"); c.commit(); c.close()
        elif ev == "drop-metadata":
            c = sqlite3.connect(path); c.execute("DROP TABLE metadata"); c.commit(); c.close()
        elif ev == "wrong-layout":
            c = sqlite3.connect(path); c.execute("DROP TABLE models"); c.execute(MODELS_WRONG); c.commit(); c.close()
        elif ev == "delete-file":
            os.remove(path)
        elif ev == "damage-row":
            c = sqlite3.connect(path); c.execute("UPDATE models SET data = ?", (b"cpymoca.ast\nGone\n.",)); c.commit(); c.close()
        elif ev == "version-change":
            pymoca.__version__ = OLD
        elif ev == "reload":
            parser.parse.initialized_dbs = set()
        elif ev.endswith("+reload"):
            sub = ev.split("+")[0]
            if sub == "corrupt-file":
                open(path, "wb").write(b"SQLite format 3\x00" + b"\xde\xad\xbe\xef" * 300)
            elif sub == "drop-models":
                c = sqlite3.connect(path); c.execute("DROP TABLE models"); c.commit(); c.close()
            parser.parse.initialized_dbs = set()
        got = parser.parse(TEXTS[p2], model_cache_folder=folder, cache_db="cache.db")
    except BaseException as e:
        if not isinstance(e, (Exception, RecursionError)):
            raise
        col.violation(case + ":raises:" + type(e).__name__, f"history parse({p1}); {ev}; parse({p2}) [cache folder given as {style} path] raises {type(e).__name__}: {str(e)[:100]}", {"state": st})
        return
    finally:
        os.chdir(cwd)
        if style == "symlink" and os.path.islink(d + "_link"):
            os.remove(d + "_link")
    want = ref_parse(p2)[0]
    gj = None if got is None else json.dumps(ast.Node.to_json(got), sort_keys=True, default=str)
    if gj != want:
        col.violation(case + ":wrong-result", f"history parse({p1}); {ev}; parse({p2}) returns a result that differs from the uncached parse", {"state": st})
    check_post(path, col, case, st)


def sequences():
    out = []
    for ev in ("none", "corrupt-file", "drop-models", "drop-metadata", "wrong-layout", "delete-file", "damage-row", "version-change", "reload",
               "corrupt-file+reload", "drop-models+reload"):
        for p1, p2 in (("T0", "T0"), ("T0", "T0w"), ("T0", "B0"), ("B0", "T0"), ("T0", "T1"), ("T2", "T2c"), ("T2c", "T2")):
            out.append({"seq": (ev, p1, p2)})
    # the cache folder given as a relative path / through a symbolic link, database damaged between the two calls
    for style in ("relative", "symlink"):
        for ev in ("none", "corrupt-file", "drop-models", "wrong-layout", "delete-file", "reload"):
            for p1, p2 in (("T0", "T0"), ("T0", "T1")):
                out.append({"seq": (ev, p1, p2, style)})
    return out


def main():
    a = std_args(PROP)
    if a.replay:
        st = json.load(open(a.replay))["replay"]["state"]
        if "rows" in st:
            st["rows"] = [tuple(r) for r in st["rows"]]
        if "seq" in st:
            st["seq"] = tuple(st["seq"])
        c = work([st])
        print(c.violations[:2] or "holds")
        return 1 if c.violations else 0
    rep = Report(PROP, a.tier, "model_checking", a.seed)
    t0 = time.time()
    sts = states(a.tier)
    rep.solver_time += time.time() - t0
    rep.coverage["z3_enumerated_pre_states"] = len(sts)
    items = sts + sequences()
    n = max(1, len(items) // (a.jobs * 4))
    chunks = [items[i:i + n] for i in range(0, len(items), n)]
    for col in run_parallel(work, chunks, a.jobs):
        rep.merge(col)
    cov = rep.coverage
    cov["states"] = max(1, len(sts))
    cov["transitions"] = max(1, cov.get("steps", 0))
    cov["traces_validated_against_impl"] = cov.get("steps", 0)
    cov["exhaustive"] = not rep.harness_errors
    cov["functions_encoded"] = ["pymoca.parser.parse, _check_database_structure, _calculate_txt_hash (real code on a real sqlite file, one step from every pre-state of the bounded space)"]
    cov["bounds"] = ("parsed text in {valid, same + trailing whitespace, syntax error, CRLF twin of an LF text with a two-line string}; 0-2 rows: row 1 keyed by the parsed text or another text x version {current, other} x payload {intact, "
                     "garbage, truncated, missing class, missing module, empty-stack pickle} x age {expired, a day old, recent}, row 2 {none, same text other version, other text expired}; "
                     "models table {ok, wrong columns, missing, no file}; metadata table {ok, no keys, wrong columns, missing}; corrupt file; database already initialised by this process "
                     "or not; version {current, other, dirty}; cache_expiration_days {0, 30}; always_update_last_hit; corrupt also as a well-formed file whose index disagrees with its table; plus ~100 two-step histories (damage / version change / reload between two parses; cache folder as absolute, relative or symlinked path)")
    rep.assumptions += ["pre-states satisfy the invariant 'an intact row keyed by (sha256(t), v) holds parse(t) and that is not None' (re-checked on every post-state)",
                        "sqlite3 and pickle run for real (C code): no value-level symbolic execution; z3 only enumerates the pre-state space",
                        "sha256 collisions and concurrent access (C02) are outside the claim"]
    return rep.finish()


if __name__ == "__main__":
    sys.exit(main())
