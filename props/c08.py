"""C08 - modifications take effect with Modelica precedence in either spelling (translation validation).

Program family: a variable `x` whose attribute (value, start, min, max, nominal, fixed) is modified at any
subset of five levels - the type definition, the declaration, the enclosing component, an extends clause,
the enclosing component two levels up - spelled nested (a(x(start = e))) or dotted (a.x.start = e).  Every
level's modification expression mentions a parameter `q`, and a parameter called `q` exists in every scope,
so the flat attribute shows in which scope the expression was resolved.  Expected flat model: recursive
instantiation with outer-overrides-inner merging (vk/ref/flatten_ref.py).  z3 proves, for all values of all
parameters, that each flat attribute expression equals the expected one (and the flat equations as in C07).
Two further families vary WHICH attribute / sub-element each level modifies (levels-mixed, chain-multi): modifications merge per
attribute, so different attributes of one element set at different levels must all survive, each from its outermost level.
A spelling may be rejected (the property allows that); a program rejected in BOTH spellings, or a flat model
that differs from the expected one, is a violation."""
import itertools
import json
import sys
import traceback

from vk import flatcmp
from vk.ref.flatten_ref import Cls, Comp, Lib
from vk.report import Collector, Report, run_parallel, std_args

PROP = "C08"
V = lambda p: ("v", p)
N = lambda x: ("n", x)
LEVELS = ["type", "decl", "mid", "ext", "top"]
ATTRS_Q = ["value", "start", "min"]
ATTRS_ALL = ["value", "start", "min", "max", "nominal", "fixed"]


def modval(attr, level_index):
    if attr == "fixed":
        return N(level_index % 2 == 0)
    return ("+", V("q"), N(10 * (level_index + 1)))


def build(levels, attr, dotted, shape="deep"):
    """levels: set of level names carrying a modification of `attr`; `attr` is one attribute name for all levels or
    a dict level -> attribute (levels-mixed family: different attributes of the same variable at different levels)."""
    at = dict(attr) if isinstance(attr, dict) else {l: attr for l in LEVELS}
    any_value = any(at[l] == "value" for l in levels)
    tmods = {at["type"]: N(5) if at["type"] != "fixed" else N(True)} if "type" in levels and at["type"] != "value" else {}
    T = Cls("T", "type", alias_of="Real", alias_mods=tmods)
    xm = {at["decl"]: modval(at["decl"], 1)} if "decl" in levels else {}
    leaf = Cls("Leaf", comps=[Comp("x", "T", ["parameter"] if any_value else [], mods={k: v for k, v in xm.items() if k != "value"}, value=xm.get("value")),
                              Comp("q", "Real", ["parameter"], value=N(1))])
    mid_m = {"x": {at["mid"]: modval(at["mid"], 2)}} if "mid" in levels else {}
    base = Cls("Base", comps=[Comp("lf", "Leaf", mods=mid_m), Comp("lf2", "Leaf"), Comp("q", "Real", ["parameter"], value=N(2))])
    ext_m = {"lf": {"x": {at["ext"]: modval(at["ext"], 3)}}} if "ext" in levels else {}
    ext = Cls("Ext", extends=[("Base", ext_m)], comps=[Comp("r", "Real", ["parameter"], value=N(3))])
    top_m = {"lf": {"x": {at["top"]: modval(at["top"], 4)}}} if "top" in levels else {}
    top = Cls("Top", comps=[Comp("e", "Ext", mods=top_m), Comp("q", "Real", ["parameter"], value=N(4))])
    for c in (leaf, base, ext, top):
        c.dotted = dotted
    return Lib([T, leaf, base, ext, top]), "Top"


def other_shapes(tier):
    """Further shapes: extends chains of three classes with competing modifications, enclosing component vs
    the component class's own extends clause, two-level derived types, classes with equal short names."""
    out = []
    for attr, dotted in itertools.product(("value", "start") if tier == "quick" else ATTRS_ALL, (False, True)):
        if attr == "fixed":
            continue
        pf = ["parameter"] if attr == "value" else []
        mk = lambda k: {attr: modval(attr, k)}
        # A <- B(x mod) <- C(x mod), instance of C with a further modification
        for lv in itertools.product((0, 1), repeat=3):
            a = Cls("A", comps=[Comp("x", "Real", pf, mods={k: v for k, v in mk(0).items() if k != "value"}, value=mk(0).get("value")), Comp("q", "Real", ["parameter"], value=N(1))])
            b = Cls("B", extends=[("A", {"x": mk(1)} if lv[0] else {})])
            c = Cls("C", extends=[("B", {"x": mk(2)} if lv[1] else {})])
            u = Cls("U", comps=[Comp("c", "C", mods={"x": mk(3)} if lv[2] else {}), Comp("q", "Real", ["parameter"], value=N(9))])
            for k in (a, b, c, u):
                k.dotted = dotted
            out.append((f"chain3[{attr},{'dotted' if dotted else 'nested'},{''.join(map(str, lv))}]", Lib([a, b, c, u]), "U"))
            out.append((f"chain3-direct[{attr},{'dotted' if dotted else 'nested'},{''.join(map(str, lv[:2]))}]", Lib([a, b, c]), "C")) if lv[2] == 0 else None
        # two-level derived type carrying attribute modifications
        if attr != "value":
            t1 = Cls("T1", "type", alias_of="Real", alias_mods={attr: N(5)})
            t2 = Cls("T2", "type", alias_of="T1", alias_mods={"max": N(77)} if attr != "max" else {"min": N(-77)})
            m = Cls("M", comps=[Comp("x", "T2"), Comp("y", "T2", mods={attr: N(6)}), Comp("z", "T1")])
            m.dotted = dotted
            out.append((f"derived-type2[{attr},{'dotted' if dotted else 'nested'}]", Lib([t1, t2, m]), "M"))
        # classes with the same short name in different packages; modification written in the outer one
        for mid_mod, sys_mod in ((1, 1), (1, 0), (0, 1)):
            inner = Cls("Plant", comps=[Comp("x", "Real", pf, value=N(1) if attr == "value" else None), Comp("q", "Real", ["parameter"], value=N(1))])
            lib = Cls("Lib", "package", nested=[inner])
            plant = Cls("Plant", comps=[Comp("p", "Lib.Plant", mods={"x": mk(2)} if mid_mod else {}), Comp("q", "Real", ["parameter"], value=N(2))])
            site = Cls("Site", "package", nested=[plant, Cls("Sys", comps=[Comp("pl", "Plant", mods={"p": {"x": mk(3)}} if sys_mod else {}),
                                                                         Comp("q", "Real", ["parameter"], value=N(3))])])
            for k in (inner, plant, site.nested[1]):
                k.dotted = dotted
            out.append((f"same-short-name[{attr},{'dotted' if dotted else 'nested'},{mid_mod}{sys_mod}]", Lib([lib, site]), "Site.Sys"))
            if mid_mod and not sys_mod:
                out.append((f"same-short-name-direct[{attr},{'dotted' if dotted else 'nested'}]", Lib([lib, site]), "Site.Plant"))
    return out


# ---------------------------------------------------------------- different attributes at different levels
MIXED = {  # attribute per level, in LEVELS order (type, decl, mid, ext, top)
    "rot0": ["start", "min", "max", "nominal", "fixed"],      # all distinct: every level's modification must survive
    "alt": ["start", "min", "start", "min", "start"],         # two attributes interleaved: outermost of each
    "val": ["min", "value", "start", "value", "max"],         # value and attributes interleaved
    "rot2": ["max", "nominal", "fixed", "start", "min"],
    "pairs": ["nominal", "max", "nominal", "nominal", "max"],
}


def mixed_family(tier):
    """levels family with a DIFFERENT attribute of x at (some of) the levels: Modelica merges modifications per
    attribute, so the flat x carries, for every attribute, the value of the outermost level that sets it."""
    items = []
    pats = ("rot0", "alt", "val") if tier == "quick" else tuple(MIXED)
    for pat in pats:
        for bits in itertools.product((0, 1), repeat=5):
            levels = {l for l, b in zip(LEVELS, bits) if b}
            if len(levels) < 2:
                continue
            at = dict(zip(LEVELS, MIXED[pat]))
            if len({at[l] for l in levels}) < 2:
                continue  # one attribute only: that is the levels family
            tag = "".join(l[0] if l in levels else "-" for l in LEVELS)
            items.append((f"levels-mixed[{pat},{tag}]", at, sorted(levels)))
    return items


# ------------------------------------- extends chains whose clauses modify the SAME element differently
Y_OPTS = [None, ("min",), ("max",), ("nominal", "min")]                    # attributes of y set by one clause
B_OPTS = [None, ("x", "max"), ("k", "value"), ("x", "start")]              # sub-element of b set by one clause


def mv(attr, level):
    """Modification expression that identifies attribute and level, in terms of the writing scope's q."""
    if attr == "fixed":
        return N(level % 2 == 0)
    return ("+", V("q"), N(10 * (level + 1) + ATTRS_ALL.index(attr)))


def chain_multi(ypat, bpat, dotted, direct):
    """A <- A1(..) <- A2(..) [<- A3(..)], optionally an instance `A_n a(..)` in U.  ypat/bpat give, per level
    (extends clause 1..n, then the enclosing component), which attributes of the inherited variable y and which
    sub-element of the inherited component b that level modifies.  Every level also sets g on odd levels."""
    n_ext = len(ypat) - 1

    def mods(level):
        m = {}
        yo, bo = Y_OPTS[ypat[level - 1]], B_OPTS[bpat[level - 1]]
        if yo:
            m["y"] = {a: mv(a, level) for a in yo}
        if bo:
            m["b"] = {bo[0]: {bo[1]: mv(bo[1], level)}}
        if level % 2:
            m["g"] = {"value": mv("value", level)}
        return m

    bm = Cls("Bm", comps=[Comp("k", "Real", ["parameter"], value=N(1)), Comp("x", "Real", mods={"start": N(1), "min": N(-1)}), Comp("q", "Real", ["parameter"], value=N(7))])
    a = Cls("A", comps=[Comp("g", "Real", ["parameter"], value=N(1)), Comp("q", "Real", ["parameter"], value=N(2)),
                        Comp("y", "Real", mods={"start": N(1)}), Comp("b", "Bm", mods={"x": {"start": N(2)}})])
    classes = [bm, a]
    prev = "A"
    for k in range(1, n_ext + 1):
        classes.append(Cls(f"A{k}", extends=[(prev, mods(k))]))
        prev = f"A{k}"
    top = prev
    if not direct:
        classes.append(Cls("U", comps=[Comp("a", prev, mods=mods(n_ext + 1)), Comp("q", "Real", ["parameter"], value=N(9))]))
        top = "U"
    for c in classes:
        c.dotted = dotted
    return Lib(classes), top


def multi_family(tier):
    items = []
    for n_ext in ((2,) if tier == "quick" else (2, 3)):
        n = n_ext + 1
        for ypat in itertools.product(range(4), repeat=n):
            if n_ext == 3 and sum(1 for v in ypat if v) < 3:
                continue  # the long chain only with at least three modifying levels
            bpat = tuple((ypat[(i + 1) % n] + i) % 4 for i in range(n))
            if sum(1 for v in ypat[:n_ext] if v) + sum(1 for v in bpat[:n_ext] if v) == 0:
                continue  # no extends clause modifies anything
            tag = "y=" + "".join(map(str, ypat)) + ",b=" + "".join(map(str, bpat))
            items.append((f"chain-multi[{tag},inst]", ypat, bpat, False))
            if ypat[-1] == 0 and bpat[-1] in (0, 2):
                items.append((f"chain-multi[{tag},direct]", ypat, bpat, True))
    return items


def family(tier):
    items = []
    attrs = ATTRS_Q if tier == "quick" else ATTRS_ALL
    for attr in attrs:
        for bits in itertools.product((0, 1), repeat=5):
            levels = {l for l, b in zip(LEVELS, bits) if b}
            if attr == "value" and "type" in levels:
                continue
            tag = "".join(l[0] if l in levels else "-" for l in LEVELS)
            items.append((f"levels[{attr},{tag}]", attr, levels))
    return items


def expected(lib, top):
    vars_, eqs = lib.flatten(top)
    eqs = list(eqs)
    for n, v in vars_.items():
        if "value" in v["attrs"] and not ({"parameter", "constant"} & set(v["prefixes"])):
            eqs.append((("v", n), v["attrs"].pop("value")))
    return vars_, eqs


def run_pair(col, cid, make):
    """make(dotted) -> (lib, top).  Both spellings against the same expectation."""
    res = {}
    for dotted in (False, True):
        lib, top = make(dotted)
        ev, ee = expected(lib, top)
        text = lib.text()
        sub = Collector()
        r = flatcmp.compare(sub, cid, text, top, ev, ee)
        col.queries = {k: col.queries.get(k, 0) + v for k, v in sub.queries.items()}
        col.solver_time += sub.solver_time
        col.inconclusive += sub.inconclusive
        col.harness_errors += sub.harness_errors
        for k, v in sub.lists.items():
            for x in v:
                col.append(k, x)
        sp = "dotted" if dotted else "nested"
        rejected = [v for v in sub.violations if ":raises:" in v[0]]
        wrong = [v for v in sub.violations if ":raises:" not in v[0]]
        res[sp] = ("rejected" if rejected else ("wrong" if wrong else "ok"), rejected, wrong, text)
        for case, what, replay in wrong:
            # class-level id: which attribute of which variable, in which spelling
            col.violation(f"{cid}:{sp}:" + case.split(":", 1)[1], f"[{sp} spelling] {what}", replay)
        col.bump("programs")
    if res["nested"][0] == "rejected" and res["dotted"][0] == "rejected":
        case, what, replay = res["nested"][1][0]
        col.violation(f"{cid}:rejected-in-both-spellings", f"the modification cannot be expressed: nested spelling: {what}; dotted spelling: {res['dotted'][1][0][1]}",
                      {"nested_text": res["nested"][3], "dotted_text": res["dotted"][3]})
    for sp in ("nested", "dotted"):
        if res[sp][0] == "rejected" and res["dotted" if sp == "nested" else "nested"][0] != "rejected":
            col.bump(f"rejected_{sp}_only")
            col.append("rejected_one_spelling", f"{cid}:{sp}: {res[sp][1][0][1][:90]}", limit=12)
    if res["nested"][0] == "ok" and res["dotted"][0] == "ok":
        col.bump("both_spellings_agree_with_expectation")


def work(item):
    col = Collector()
    try:
        if item[0] == "levels":
            _, cid, attr, levels = item
            run_pair(col, cid, lambda dotted: build(levels, attr, dotted))
            col.sample({"case": cid, "nested_text": build(levels, attr, False)[0].text()}, 1)
        elif item[0] == "mixed":
            _, cid, at, levels = item
            run_pair(col, cid, lambda dotted: build(set(levels), at, dotted))
            col.bump("programs_mixed_attributes")
        elif item[0] == "multi":
            _, cid, ypat, bpat, direct = item
            run_pair(col, cid, lambda dotted: chain_multi(ypat, bpat, dotted, direct))
            col.bump("programs_chain_multi")
            col.sample({"case": cid, "nested_text": chain_multi(ypat, bpat, False, direct)[0].text()}, 1)
        else:
            _, cid, lib, top = item
            ev, ee = expected(lib, top)
            flatcmp.compare(col, cid, lib.text(), top, ev, ee)
            col.bump("programs")
    except Exception:
        col.harness_error(f"{item[1]}: " + traceback.format_exc()[-1200:])
    return col


def all_items(tier):
    return [("levels",) + it for it in family(tier)] + [("shape",) + it for it in other_shapes(tier) if it] + \
           [("mixed",) + it for it in mixed_family(tier)] + [("multi",) + it for it in multi_family(tier)]


def main():
    a = std_args(PROP)
    if a.replay:
        r = json.load(open(a.replay))
        items = [it for it in all_items("thorough") if r["case"].startswith(it[1])]
        c = work(items[0]) if items else Collector()
        print(c.violations[:3])
        return 1 if c.violations else 0
    rep = Report(PROP, a.tier, "translation_validation", a.seed)
    items = all_items(a.tier)
    for col in run_parallel(work, items, a.jobs):
        rep.merge(col)
    # canary: expecting the INNERMOST modification must be refuted
    lib, top = build({"decl", "top"}, "start", False)
    ev, ee = expected(lib, top)
    ev["e.lf.x"]["attrs"]["start"] = ("+", ("v", "e.lf.q"), ("n", 20))
    c = Collector()
    flatcmp.compare(c, "canary", lib.text(), top, ev, ee)
    rep.coverage["canary_detected"] = bool(c.violations)
    if not c.violations:
        rep.harness_error("canary: a precedence inversion was not detected")
    cov = rep.coverage
    cov["disagreements_checked"] = rep.queries.get("sat", 0)
    cov["functions_encoded"] = ["pymoca.parser._parse (concrete)", "pymoca.tree.flatten: flatten_extends (modification environment merge), build_instance_tree (moving modifications to "
                                "sub-components), modify_symbol / apply_symbol_modifications, flatten_component_refs (executed per program; attribute expressions -> z3)"]
    cov["bounds"] = ("all 2^5 subsets of {type definition, declaration, enclosing component, extends clause, component two levels up} x attribute {value, start, min} (thorough: + max, nominal, "
                     "fixed) x {nested, dotted} spelling, every modification expression in terms of the parameter q of its own scope; extends chains of three classes with all 8 competing "
                     "modification subsets (instance and direct), two-level derived types, equal short class names in different packages; levels-mixed: the same five levels with a DIFFERENT "
                     "attribute of x per level - attribute patterns {all distinct, two attributes interleaved, value and attributes interleaved} (thorough: + 2 more) x all level subsets of size >= 2 "
                     "that set at least two attributes x both spellings (every attribute must come from the outermost level that sets it, none may be lost); chain-multi: inheritance chains "
                     "A <- A1(..) <- A2(..) (thorough: also <- A3(..)), flattened directly or as a modified component, where every extends clause / the enclosing component modifies the same inherited "
                     "variable y (none | min | max | nominal+min) and the same inherited component b (none | b.x.max | b.k | b.x.start) plus a parameter value, all 4^3 per-level combinations "
                     "(thorough 4^4 with >= 3 modifying levels) x both spellings, declaration-level modifications underneath; all parameter values unbounded reals")
    cov["explanation"] = "per attribute: z3 unsat of (flat attribute expression != expected expression) over all parameter values"
    rep.assumptions += ["expected flat model from vk/ref/flatten_ref.py: declaration < enclosing component < ... outermost wins; extends-clause modifications override the base class's own; "
                        "expressions are resolved in the scope where they are written",
                        "a spelling that is rejected (exception) is allowed by the property unless both spellings are rejected"]
    if not cov.get("programs"):
        rep.harness_error("no program was compared")
    return rep.finish()


if __name__ == "__main__":
    sys.exit(main())
