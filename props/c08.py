"""C08 - modifications take effect with Modelica precedence in either spelling (translation validation).

Program family: a variable `x` whose attribute (value, start, min, max, nominal, fixed) is modified at any
subset of five levels - the type definition, the declaration, the enclosing component, an extends clause,
the enclosing component two levels up - spelled nested (a(x(start = e))) or dotted (a.x.start = e).  Every
level's modification expression mentions a parameter `q`, and a parameter called `q` exists in every scope,
so the flat attribute shows in which scope the expression was resolved.  Expected flat model: recursive
instantiation with outer-overrides-inner merging (vk/ref/flatten_ref.py).  z3 proves, for all values of all
parameters, that each flat attribute expression equals the expected one (and the flat equations as in C07).
A spelling may be rejected (the property allows that); a program rejected in BOTH spellings, or a flat model
that differs from the expected one, is a violation."""
import itertools
import json
import sys
import traceback

from vk import flatcmp
from vk.ref.flatten_ref import Cls, Comp, Lib
from vk.report import Collector, Report, run_parallel, std_args

PROP = "C08"
V = lambda p: ("v", p)
N = lambda x: ("n", x)
LEVELS = ["type", "decl", "mid", "ext", "top"]
ATTRS_Q = ["value", "start", "min"]
ATTRS_ALL = ["value", "start", "min", "max", "nominal", "fixed"]


def modval(attr, level_index):
    if attr == "fixed":
        return N(level_index % 2 == 0)
    return ("+", V("q"), N(10 * (level_index + 1)))


def build(levels, attr, dotted, shape="deep"):
    """levels: set of level names carrying a modification of `attr`."""
    tmods = {attr: N(5) if attr != "fixed" else N(True)} if "type" in levels and attr != "value" else {}
    T = Cls("T", "type", alias_of="Real", alias_mods=tmods)
    xm = {attr: modval(attr, 1)} if "decl" in levels else {}
    leaf = Cls("Leaf", comps=[Comp("x", "T", ["parameter"] if attr == "value" else [], mods={k: v for k, v in xm.items() if k != "value"}, value=xm.get("value")),
                              Comp("q", "Real", ["parameter"], value=N(1))])
    mid_m = {"x": {attr: modval(attr, 2)}} if "mid" in levels else {}
    base = Cls("Base", comps=[Comp("lf", "Leaf", mods=mid_m), Comp("lf2", "Leaf"), Comp("q", "Real", ["parameter"], value=N(2))])
    ext_m = {"lf": {"x": {attr: modval(attr, 3)}}} if "ext" in levels else {}
    ext = Cls("Ext", extends=[("Base", ext_m)], comps=[Comp("r", "Real", ["parameter"], value=N(3))])
    top_m = {"lf": {"x": {attr: modval(attr, 4)}}} if "top" in levels else {}
    top = Cls("Top", comps=[Comp("e", "Ext", mods=top_m), Comp("q", "Real", ["parameter"], value=N(4))])
    for c in (leaf, base, ext, top):
        c.dotted = dotted
    return Lib([T, leaf, base, ext, top]), "Top"


def other_shapes(tier):
    """Further shapes: extends chains of three classes with competing modifications, enclosing component vs
    the component class's own extends clause, two-level derived types, classes with equal short names."""
    out = []
    for attr, dotted in itertools.product(("value", "start") if tier == "quick" else ATTRS_ALL, (False, True)):
        if attr == "fixed":
            continue
        pf = ["parameter"] if attr == "value" else []
        mk = lambda k: {attr: modval(attr, k)}
        # A <- B(x mod) <- C(x mod), instance of C with a further modification
        for lv in itertools.product((0, 1), repeat=3):
            a = Cls("A", comps=[Comp("x", "Real", pf, mods={k: v for k, v in mk(0).items() if k != "value"}, value=mk(0).get("value")), Comp("q", "Real", ["parameter"], value=N(1))])
            b = Cls("B", extends=[("A", {"x": mk(1)} if lv[0] else {})])
            c = Cls("C", extends=[("B", {"x": mk(2)} if lv[1] else {})])
            u = Cls("U", comps=[Comp("c", "C", mods={"x": mk(3)} if lv[2] else {}), Comp("q", "Real", ["parameter"], value=N(9))])
            for k in (a, b, c, u):
                k.dotted = dotted
            out.append((f"chain3[{attr},{'dotted' if dotted else 'nested'},{''.join(map(str, lv))}]", Lib([a, b, c, u]), "U"))
            out.append((f"chain3-direct[{attr},{'dotted' if dotted else 'nested'},{''.join(map(str, lv[:2]))}]", Lib([a, b, c]), "C")) if lv[2] == 0 else None
        # two-level derived type carrying attribute modifications
        if attr != "value":
            t1 = Cls("T1", "type", alias_of="Real", alias_mods={attr: N(5)})
            t2 = Cls("T2", "type", alias_of="T1", alias_mods={"max": N(77)} if attr != "max" else {"min": N(-77)})
            m = Cls("M", comps=[Comp("x", "T2"), Comp("y", "T2", mods={attr: N(6)}), Comp("z", "T1")])
            m.dotted = dotted
            out.append((f"derived-type2[{attr},{'dotted' if dotted else 'nested'}]", Lib([t1, t2, m]), "M"))
        # classes with the same short name in different packages; modification written in the outer one
        for mid_mod, sys_mod in ((1, 1), (1, 0), (0, 1)):
            inner = Cls("Plant", comps=[Comp("x", "Real", pf, value=N(1) if attr == "value" else None), Comp("q", "Real", ["parameter"], value=N(1))])
            lib = Cls("Lib", "package", nested=[inner])
            plant = Cls("Plant", comps=[Comp("p", "Lib.Plant", mods={"x": mk(2)} if mid_mod else {}), Comp("q", "Real", ["parameter"], value=N(2))])
            site = Cls("Site", "package", nested=[plant, Cls("Sys", comps=[Comp("pl", "Plant", mods={"p": {"x": mk(3)}} if sys_mod else {}),
                                                                         Comp("q", "Real", ["parameter"], value=N(3))])])
            for k in (inner, plant, site.nested[1]):
                k.dotted = dotted
            out.append((f"same-short-name[{attr},{'dotted' if dotted else 'nested'},{mid_mod}{sys_mod}]", Lib([lib, site]), "Site.Sys"))
            if mid_mod and not sys_mod:
                out.append((f"same-short-name-direct[{attr},{'dotted' if dotted else 'nested'}]", Lib([lib, site]), "Site.Plant"))
    return out


def family(tier):
    items = []
    attrs = ATTRS_Q if tier == "quick" else ATTRS_ALL
    for attr in attrs:
        for bits in itertools.product((0, 1), repeat=5):
            levels = {l for l, b in zip(LEVELS, bits) if b}
            if attr == "value" and "type" in levels:
                continue
            tag = "".join(l[0] if l in levels else "-" for l in LEVELS)
            items.append((f"levels[{attr},{tag}]", attr, levels))
    return items


def expected(lib, top):
    vars_, eqs = lib.flatten(top)
    eqs = list(eqs)
    for n, v in vars_.items():
        if "value" in v["attrs"] and not ({"parameter", "constant"} & set(v["prefixes"])):
            eqs.append((("v", n), v["attrs"].pop("value")))
    return vars_, eqs


def run_pair(col, cid, make):
    """make(dotted) -> (lib, top).  Both spellings against the same expectation."""
    res = {}
    for dotted in (False, True):
        lib, top = make(dotted)
        ev, ee = expected(lib, top)
        text = lib.text()
        sub = Collector()
        r = flatcmp.compare(sub, cid, text, top, ev, ee)
        col.queries = {k: col.queries.get(k, 0) + v for k, v in sub.queries.items()}
        col.solver_time += sub.solver_time
        col.inconclusive += sub.inconclusive
        col.harness_errors += sub.harness_errors
        for k, v in sub.lists.items():
            for x in v:
                col.append(k, x)
        sp = "dotted" if dotted else "nested"
        rejected = [v for v in sub.violations if ":raises:" in v[0]]
        wrong = [v for v in sub.violations if ":raises:" not in v[0]]
        res[sp] = ("rejected" if rejected else ("wrong" if wrong else "ok"), rejected, wrong, text)
        for case, what, replay in wrong:
            # class-level id: which attribute of which variable, in which spelling
            col.violation(f"{cid}:{sp}:" + case.split(":", 1)[1], f"[{sp} spelling] {what}", replay)
        col.bump("programs")
    if res["nested"][0] == "rejected" and res["dotted"][0] == "rejected":
        case, what, replay = res["nested"][1][0]
        col.violation(f"{cid}:rejected-in-both-spellings", f"the modification cannot be expressed: nested spelling: {what}; dotted spelling: {res['dotted'][1][0][1]}",
                      {"nested_text": res["nested"][3], "dotted_text": res["dotted"][3]})
    for sp in ("nested", "dotted"):
        if res[sp][0] == "rejected" and res["dotted" if sp == "nested" else "nested"][0] != "rejected":
            col.bump(f"rejected_{sp}_only")
            col.append("rejected_one_spelling", f"{cid}:{sp}: {res[sp][1][0][1][:90]}", limit=12)
    if res["nested"][0] == "ok" and res["dotted"][0] == "ok":
        col.bump("both_spellings_agree_with_expectation")


def work(item):
    col = Collector()
    try:
        if item[0] == "levels":
            _, cid, attr, levels = item
            run_pair(col, cid, lambda dotted: build(levels, attr, dotted))
            col.sample({"case": cid, "nested_text": build(levels, attr, False)[0].text()}, 1)
        else:
            _, cid, lib, top = item
            ev, ee = expected(lib, top)
            flatcmp.compare(col, cid, lib.text(), top, ev, ee)
            col.bump("programs")
    except Exception:
        col.harness_error(f"{item[1]}: " + traceback.format_exc()[-1200:])
    return col


def main():
    a = std_args(PROP)
    if a.replay:
        r = json.load(open(a.replay))
        items = [("levels",) + it for it in family("thorough") if r["case"].startswith(it[0])] + \
                [("shape",) + it for it in other_shapes("thorough") if r["case"].startswith(it[0])]
        c = work(items[0]) if items else Collector()
        print(c.violations[:3])
        return 1 if c.violations else 0
    rep = Report(PROP, a.tier, "translation_validation", a.seed)
    items = [("levels",) + it for it in family(a.tier)] + [("shape",) + it for it in other_shapes(a.tier) if it]
    for col in run_parallel(work, items, a.jobs):
        rep.merge(col)
    # canary: expecting the INNERMOST modification must be refuted
    lib, top = build({"decl", "top"}, "start", False)
    ev, ee = expected(lib, top)
    ev["e.lf.x"]["attrs"]["start"] = ("+", ("v", "e.lf.q"), ("n", 20))
    c = Collector()
    flatcmp.compare(c, "canary", lib.text(), top, ev, ee)
    rep.coverage["canary_detected"] = bool(c.violations)
    if not c.violations:
        rep.harness_error("canary: a precedence inversion was not detected")
    cov = rep.coverage
    cov["disagreements_checked"] = rep.queries.get("sat", 0)
    cov["functions_encoded"] = ["pymoca.parser._parse (concrete)", "pymoca.tree.flatten: flatten_extends (modification environment merge), build_instance_tree (moving modifications to "
                                "sub-components), modify_symbol / apply_symbol_modifications, flatten_component_refs (executed per program; attribute expressions -> z3)"]
    cov["bounds"] = ("all 2^5 subsets of {type definition, declaration, enclosing component, extends clause, component two levels up} x attribute {value, start, min} (thorough: + max, nominal, "
                     "fixed) x {nested, dotted} spelling, every modification expression in terms of the parameter q of its own scope; extends chains of three classes with all 8 competing "
                     "modification subsets (instance and direct), two-level derived types, equal short class names in different packages; all parameter values unbounded reals")
    cov["explanation"] = "per attribute: z3 unsat of (flat attribute expression != expected expression) over all parameter values"
    rep.assumptions += ["expected flat model from vk/ref/flatten_ref.py: declaration < enclosing component < ... outermost wins; extends-clause modifications override the base class's own; "
                        "expressions are resolved in the scope where they are written",
                        "a spelling that is rejected (exception) is allowed by the property unless both spellings are rejected"]
    if not cov.get("programs"):
        rep.harness_error("no program was compared")
    return rep.finish()


if __name__ == "__main__":
    sys.exit(main())
